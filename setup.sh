#!/bin/sh
# Offline setup: optional third-party helpers from the local wheelhouse into /verif/.deps.
# Nothing here is required for the checks to decide (they degrade gracefully).
cd "$(dirname "$0")" || exit 1
WH=/opt/veriftools/wheels
/venv/bin/python -c "import hypothesis" 2>/dev/null || /venv/bin/pip install --no-index --find-links $WH hypothesis || exit 1
mkdir -p .deps
/venv/bin/python -c "import sys; sys.path.append('.deps'); import jsonschema" 2>/dev/null || \
  /venv/bin/pip install -q --no-index --find-links $WH --target .deps jsonschema >/dev/null 2>&1 || echo "note: jsonschema not installed (built-in validation used)"
/venv/bin/python -c "import sys; sys.path.append('.deps'); import atheris" 2>/dev/null || \
  /venv/bin/pip install -q --no-index --find-links $WH --target .deps atheris >/dev/null 2>&1 || echo "note: atheris not installed (fuzz campaigns skipped)"
/venv/bin/python -c "import sys; sys.path.insert(0,'/repo'); import tucan, networkx, igraph, antlr4, hypothesis; print('setup ok: tucan from', tucan.__file__)"
