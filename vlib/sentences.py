"""Generators for TUCAN strings: sentences by construction from the grammar, token-level
edits of them, boundary cases, and meaning-preserving respellings (no tucan import)."""

from __future__ import annotations

import random
import re

from hypothesis import strategies as st

from .ptable import SYMBOLS, Z_OF, hill_order

PREFIX_SYMS = ["C", "Cl", "Cs", "Co", "Cn", "Ca", "Cd", "Ce", "Cf", "Cm", "Cr", "Cu", "H", "He", "Hf", "Hg", "Ho", "Hs",
               "N", "Na", "Nb", "Nd", "Ne", "Nh", "Ni", "No", "Np", "O", "Og", "Os", "S", "Sb", "Sc", "Se", "Sg", "Si", "Sm", "Sn", "Sr",
               "B", "Ba", "Be", "Bh", "Bi", "Bk", "Br", "P", "Pa", "Pb", "Pd", "Pm", "Po", "Pr", "Pt", "Pu", "I", "In", "Ir", "F", "Fe", "Fl", "Fm", "Fr"]

TOKEN_RE = re.compile(r"[A-Z][a-z]?|[0-9]+|mass|rad|[a-z]+|.", re.S)

JUNK_TOKENS = ["0", "00", "01", "007", " ", "\n", "\t", "D", "T", "c", "h", "cl", "Xy", "Xx", "A", "J", "Q", "–", "—", "−", "٣", "１", "²",
               "MAS", "Mass", "mas", "ma", "ss", "radical", "ra", "d", "chg", "mass=", ";", ".", "[", "]", "{", "}", "+", "*", "_", "\\", "é", "\x00", " "]
ALPHABET_TOKENS = ["/", "(", ")", "-", ":", ",", "=", "mass", "rad", "1", "2", "3", "9", "10", "11", "99", "100", "C", "H", "O", "N", "Cl", "He", "Og"]


def count_values():
    return st.one_of(
        st.sampled_from([1, 1, 1, 2, 2, 3, 4, 9, 10, 11, 12, 19, 20, 99, 100, 101]),
        st.integers(1, 40),
        st.sampled_from([250, 999, 1000, 1001]),
    )


def value_numbers():
    # small, dense sets first: equal / adjacent values on several atoms (packed or truncated
    # invariant codes collide only for particular combinations such as mass m+1 vs rad 4..7,
    # rad 10 vs mass 1, mass 1000 vs the next element)
    return st.one_of(
        st.sampled_from([1, 2, 3, 4, 5, 6, 7, 8, 10, 11, 20, 21, 1000, 1001]),st.sampled_from([1, 2, 3, 9, 10, 12, 13, 14, 99, 100, 235, 999, 1000, 10**9, 10**18, 10**39]), st.integers(1, 300))


@st.composite
def structures(draw, max_atoms=300, max_tuples=30, allow_empty=True):
    """A sentence by construction: formula elements with counts, tuples (any order /
    orientation / duplicates), attribute blocks (split / merged / permuted)."""
    k = draw(st.sampled_from([0, 1, 1, 2, 2, 3, 3, 4, 6, 10] if allow_empty else [1, 1, 2, 2, 3, 3, 4, 6, 10]))
    pool = draw(st.sampled_from(["prefix", "prefix", "all", "common", "adjacent"]))
    if pool == "adjacent":
        # neighbours in the periodic table (a transposition in an element table shows only
        # when both elements occur together)
        z0 = draw(st.integers(0, 115))
        base = SYMBOLS[z0 : z0 + 3]
        k = min(max(k, 2), 3)
    else:
        base = PREFIX_SYMS if pool == "prefix" else SYMBOLS if pool == "all" else ["C", "H", "N", "O", "S", "Cl", "Br", "F", "P", "Si", "Fe"]
    syms = draw(st.lists(st.sampled_from(base), min_size=k, max_size=k, unique=True))
    if syms and draw(st.integers(0, 2)) == 0 and "C" not in syms:
        syms[0] = "C"
    els = []
    total = 0
    for s in hill_order(syms):
        c = draw(count_values())
        if total + c > max_atoms:
            c = max(1, min(c, max_atoms - total)) if total < max_atoms else 1
        total += c
        els.append([s, c])
    n = sum(c for _, c in els)
    tuples = []
    if n >= 2:
        t = draw(st.integers(0, max_tuples))
        idx = st.one_of(st.integers(1, n), st.sampled_from([1, 2, n, n - 1, max(1, n // 2)]))
        for _ in range(t):
            a = draw(idx)
            b = draw(idx)
            if a == b:
                b = a % n + 1
            tuples.append([a, b])
        if tuples and draw(st.booleans()):
            tuples.append(list(draw(st.sampled_from(tuples))))  # repeated tuple
            if draw(st.booleans()):
                tuples.append(list(reversed(draw(st.sampled_from(tuples)))))
    blocks = []
    if n >= 1:
        nb = draw(st.sampled_from([0, 0, 1, 1, 2, 3, 5]))
        used = set()
        for _ in range(nb):
            i = draw(st.one_of(st.integers(1, n), st.sampled_from([1, n])))
            keys = [k_ for k_ in draw(st.sampled_from([["mass"], ["rad"], ["mass", "rad"], ["rad", "mass"]])) if (i, k_) not in used]
            if not keys:
                continue
            for k_ in keys:
                used.add((i, k_))
            blocks.append([i, [[k_, draw(value_numbers())] for k_ in keys]])
    third = bool(blocks) or draw(st.booleans())
    return {"els": els, "tuples": tuples, "blocks": blocks, "third": third}


def spell(struct):
    f = "".join(s + (str(c) if c > 1 else "") for s, c in struct["els"])
    t = "".join(f"({a}-{b})" for a, b in struct["tuples"])
    out = f + "/" + t
    if struct["third"] or struct["blocks"]:
        out += "/" + "".join("(" + str(i) + ":" + ",".join(f"{k}={v}" for k, v in props) + ")" for i, props in struct["blocks"])
    return out


def n_atoms(struct):
    return sum(c for _, c in struct["els"])


def block_ranges(struct):
    """1-based inclusive index range of each element block (blocks ordered by Z)."""
    order = sorted(struct["els"], key=lambda e: Z_OF[e[0]])
    out = {}
    pos = 1
    for s, c in order:
        out[s] = (pos, pos + c - 1)
        pos += c
    return out


def tokens_of(s):
    return TOKEN_RE.findall(s)


@st.composite
def edited(draw, base_strategy=None):
    """A single-token edit (insert / delete / replace / transpose) of a valid sentence."""
    size = draw(st.sampled_from(["short", "short", "short", "short", "long"]))
    struct = draw(base_strategy or (structures(max_atoms=60, max_tuples=8) if size == "short" else structures(max_atoms=300, max_tuples=45)))
    toks = tokens_of(spell(struct))
    op = draw(st.sampled_from(["insert", "delete", "replace", "transpose", "insert", "replace", "truncate", "append", "delete_last", "edit_tail"]))
    tok = draw(st.one_of(st.sampled_from(ALPHABET_TOKENS), st.sampled_from(JUNK_TOKENS), st.sampled_from(SYMBOLS)))
    if not toks:
        op = "insert"
    if op == "truncate":
        return "".join(toks[: draw(st.integers(0, len(toks)))])
    if op == "append":
        return "".join(toks + [tok] + ([draw(st.sampled_from(ALPHABET_TOKENS))] if draw(st.booleans()) else []))
    if op == "delete_last":
        return "".join(toks[:-1])
    if op == "edit_tail":
        # an edit within the last few tokens (errors close to the end of a long string)
        i = max(0, len(toks) - 1 - draw(st.integers(0, 5)))
        how = draw(st.sampled_from(["replace", "delete", "insert"]))
        if how == "replace":
            return "".join(toks[:i] + [tok] + toks[i + 1 :])
        if how == "delete":
            return "".join(toks[:i] + toks[i + 1 :])
        return "".join(toks[:i] + [tok] + toks[i:])
    if op == "insert":
        i = draw(st.integers(0, len(toks)))
        toks = toks[:i] + [tok] + toks[i:]
    elif op == "delete":
        i = draw(st.integers(0, len(toks) - 1))
        toks = toks[:i] + toks[i + 1 :]
    elif op == "replace":
        i = draw(st.integers(0, len(toks) - 1))
        toks = toks[:i] + [tok] + toks[i + 1 :]
    else:
        if len(toks) >= 2:
            i = draw(st.integers(0, len(toks) - 2))
            toks[i], toks[i + 1] = toks[i + 1], toks[i]
    return "".join(toks)


@st.composite
def boundary(draw):
    """Index boundary n / n+1, self-bonds, duplicate attributes within and across blocks."""
    big = draw(st.integers(0, 3)) == 0
    struct = draw(structures(max_atoms=1300 if big else 120, max_tuples=6, allow_empty=False))
    n = n_atoms(struct)
    kind = draw(st.sampled_from(["tuple_n", "tuple_n1", "attr_n", "attr_n1", "self", "self", "dup_in", "dup_in3", "dup_across", "huge_index", "dup_ok"]))

    def an_index():
        # boundary-biased atom index: ends of the range, digit-width borders, small-int cache border
        cands = [x for x in (1, 2, 9, 10, 99, 100, 255, 256, 257, 258, 999, 1000, 1001, n - 1, n) if 1 <= x <= n]
        return draw(st.one_of(st.sampled_from(cands), st.integers(1, n)))

    s = dict(struct)
    s["tuples"] = [list(t) for t in struct["tuples"]]
    s["blocks"] = [[i, [list(p) for p in props]] for i, props in struct["blocks"]]
    if kind == "tuple_n" and n >= 2:
        s["tuples"].append([n, draw(st.integers(1, n - 1))])

    elif kind == "tuple_n1":
        s["tuples"].append(draw(st.sampled_from([[n + 1, 1], [1, n + 1], [n + 1, n + 2]])))
    elif kind == "attr_n":
        if not any(i == n for i, _ in s["blocks"]):
            s["blocks"].append([n, [["rad", 2]]])
    elif kind == "attr_n1":
        s["blocks"].append([n + 1, [["mass", 7]]])
    elif kind == "self":
        a = an_index()
        s["tuples"].insert(draw(st.integers(0, len(s["tuples"]))), [a, a])
    elif kind == "dup_in":
        i = an_index()
        s["blocks"] = [b for b in s["blocks"] if b[0] != i] + [[i, [["mass", 5], ["mass", draw(st.sampled_from([5, 7]))]]]]
    elif kind == "dup_in3":
        # the repeated key in third or later position of one group
        i = an_index()
        pat = draw(st.sampled_from([["mass", "rad", "mass"], ["rad", "mass", "rad"], ["mass", "rad", "rad"], ["rad", "mass", "mass", "rad"], ["mass", "rad", "mass", "rad"]]))
        s["blocks"] = [b for b in s["blocks"] if b[0] != i] + [[i, [[k_, draw(st.sampled_from([1, 2, 13]))] for k_ in pat]]]
    elif kind == "dup_across":
        i = draw(st.integers(1, n))
        s["blocks"] = [b for b in s["blocks"] if b[0] != i] + [[i, [["rad", 1]]], [i, [["mass", 3]]], [i, [["rad", draw(st.sampled_from([1, 2]))]]]]
    elif kind == "huge_index":
        s["tuples"].append([1, 10 ** draw(st.integers(3, 39))])
    elif kind == "dup_ok" and n >= 1:
        i = draw(st.integers(1, n))
        s["blocks"] = [b for b in s["blocks"] if b[0] != i] + [[i, [["rad", 1]]], [i, [["mass", 3]]]]
    s["third"] = True if s["blocks"] else s["third"]
    return spell(s)


def respell(struct, rnd):
    """Meaning-preserving respelling: tuple shuffle / endpoint swap / repetition, attribute
    block reorder / split / merge / key order, renumbering inside each element block."""
    n = n_atoms(struct)
    ranges = block_ranges(struct)
    ren = {}
    for s, (lo, hi) in ranges.items():
        idx = list(range(lo, hi + 1))
        img = list(idx)
        if rnd.random() < 0.7:
            rnd.shuffle(img)
        for a, b in zip(idx, img):
            ren[a] = b
    tuples = [[ren[a], ren[b]] for a, b in struct["tuples"]]
    for t in tuples:
        if rnd.random() < 0.5:
            t.reverse()
    if tuples and rnd.random() < 0.5:
        for _ in range(rnd.randint(1, 3)):
            t = list(rnd.choice(tuples))
            if rnd.random() < 0.5:
                t.reverse()
            tuples.append(t)
    rnd.shuffle(tuples)
    # attributes: flatten to (atom, key, value), regroup arbitrarily
    flat = [(ren[i], k, v) for i, props in struct["blocks"] for k, v in props]
    rnd.shuffle(flat)
    blocks = []
    for i, k, v in flat:
        cands = [b for b in blocks if b[0] == i]
        if cands and rnd.random() < 0.5:
            b = rnd.choice(cands)
            b[1].insert(rnd.randint(0, len(b[1])), [k, v])
        else:
            blocks.insert(rnd.randint(0, len(blocks)), [i, [[k, v]]])
    third = bool(blocks) or (rnd.random() < 0.5)
    return {"els": [list(e) for e in struct["els"]], "tuples": tuples, "blocks": blocks, "third": third}


def mol_to_sentence(mol, order=None, bond_order=None, flips=None):
    """Spell an abstract molecule as a (generally non-canonical) TUCAN string: Hill formula,
    atoms numbered in blocks of increasing atomic number (own table), inside a block in the
    given listing order; tuples in the given order / orientation; one attribute block per
    labelled atom."""
    n = mol.n
    order = list(range(n)) if order is None else order
    ranked = sorted(order, key=lambda i: mol.atoms[i][0])  # stable: listing order inside a block
    index = {a: k + 1 for k, a in enumerate(ranked)}
    counts = mol.element_counts()
    formula = "".join(sym + (str(counts[sym]) if counts[sym] > 1 else "") for sym in hill_order(counts))
    bidx = list(range(mol.m)) if bond_order is None else bond_order
    tuples = []
    for k in bidx:
        i, j, _ = mol.bonds[k]
        if flips is not None and flips[k]:
            i, j = j, i
        tuples.append(f"({index[i]}-{index[j]})")
    blocks = []
    for a in order:
        z, mass, rad = mol.atoms[a][:3]
        props = ([f"mass={mass}"] if mass else []) + ([f"rad={rad}"] if rad else [])
        if props:
            blocks.append(f"({index[a]}:" + ",".join(props) + ")")
    out = formula + "/" + "".join(tuples)
    if blocks:
        out += "/" + "".join(blocks)
    return out
