"""Abstract molecule model: the single source of truth for every oracle.

Mol = (atoms, bonds); atom = [Z, mass, rad, chg, x, y, z]; bond = [i, j, bond_type].
mass = 0 / rad = 0 / chg = 0 mean "unlabelled".  Nothing here imports tucan.
"""

from __future__ import annotations

import hashlib
import json
from collections import Counter

from .ptable import SYM_OF, hill_order


class Mol:
    __slots__ = ("atoms", "bonds", "family")

    def __init__(self, atoms, bonds, family="?"):
        self.atoms = [list(a) for a in atoms]
        self.bonds = [list(b) for b in bonds]
        self.family = family

    # ---- construction helpers -------------------------------------------------
    @staticmethod
    def simple(zs, edges, masses=None, rads=None, family="?"):
        n = len(zs)
        masses = masses or [0] * n
        rads = rads or [0] * n
        atoms = [[zs[i], masses[i], rads[i], 0, float(i), 0.0, 0.0] for i in range(n)]
        return Mol(atoms, [[i, j, 1] for i, j in edges], family)

    def to_json(self):
        return {"atoms": self.atoms, "bonds": self.bonds, "family": self.family}

    @staticmethod
    def from_json(d):
        return Mol(d["atoms"], d["bonds"], d.get("family", "?"))

    def copy(self):
        return Mol(self.atoms, self.bonds, self.family)

    # ---- basic views ----------------------------------------------------------
    @property
    def n(self):
        return len(self.atoms)

    @property
    def m(self):
        return len(self.bonds)

    def colour(self, i):
        a = self.atoms[i]
        return (a[0], a[1], a[2])

    def symbol(self, i):
        return SYM_OF[self.atoms[i][0]]

    def edge_set(self):
        return {frozenset((b[0], b[1])) for b in self.bonds}

    def adjacency(self):
        adj = [[] for _ in range(self.n)]
        for i, j, _ in self.bonds:
            adj[i].append(j)
            adj[j].append(i)
        return adj

    def degrees(self):
        return [len(x) for x in self.adjacency()]

    def element_counts(self):
        return Counter(self.symbol(i) for i in range(self.n))

    def formula_hill(self):
        c = self.element_counts()
        return "".join(s + (str(c[s]) if c[s] > 1 else "") for s in hill_order(c))

    def n_components(self):
        adj = self.adjacency()
        seen = [False] * self.n
        k = 0
        for s in range(self.n):
            if seen[s]:
                continue
            k += 1
            stack = [s]
            seen[s] = True
            while stack:
                v = stack.pop()
                for w in adj[v]:
                    if not seen[w]:
                        seen[w] = True
                        stack.append(w)
        return k

    # ---- transformations ------------------------------------------------------
    def permute(self, pi):
        """Atom i becomes atom pi[i]; the atom list is re-indexed accordingly."""
        n = self.n
        assert sorted(pi) == list(range(n))
        atoms = [None] * n
        for i, a in enumerate(self.atoms):
            atoms[pi[i]] = list(a)
        bonds = [[pi[i], pi[j], t] for i, j, t in self.bonds]
        return Mol(atoms, bonds, self.family)

    def identity_only(self):
        """Copy with all non-identity data reset (chg 0, coords 0, bond type 1)."""
        return Mol(
            [[a[0], a[1], a[2], 0, 0.0, 0.0, 0.0] for a in self.atoms],
            [[i, j, 1] for i, j, _ in self.bonds],
            self.family,
        )

    # ---- own colour refinement (classification only, never an oracle) ----------
    def wl(self, max_rounds=None):
        """1-WL colour refinement from (Z, mass, rad). Returns (classes, rounds)."""
        adj = self.adjacency()
        keys = [self.colour(i) for i in range(self.n)]
        ranks = {k: r for r, k in enumerate(sorted(set(keys)))}
        cls = [ranks[k] for k in keys]
        rounds = 0
        while True:
            keys = [(cls[i], tuple(sorted(cls[j] for j in adj[i]))) for i in range(self.n)]
            ranks = {k: r for r, k in enumerate(sorted(set(keys)))}
            new = [ranks[k] for k in keys]
            if len(ranks) == len(set(cls)):
                return new, rounds
            cls = new
            rounds += 1
            if max_rounds is not None and rounds >= max_rounds:
                return cls, rounds

    # ---- conversions ----------------------------------------------------------
    def to_nx(self):
        import networkx as nx

        g = nx.Graph()
        for i in range(self.n):
            g.add_node(i, c=self.colour(i))
        for i, j, t in self.bonds:
            g.add_edge(i, j)
        return g

    def digest(self):
        s = json.dumps([self.atoms, self.bonds], separators=(",", ":"))
        return hashlib.sha1(s.encode()).hexdigest()[:16]

    def ident_digest(self):
        """Digest of the identity data only (Z, mass, rad, edge set)."""
        s = json.dumps(
            [[a[:3] for a in self.atoms], sorted(sorted(b[:2]) for b in self.bonds)],
            separators=(",", ":"),
        )
        return hashlib.sha1(s.encode()).hexdigest()[:16]

    def brief(self):
        """Compact human-readable rendering for evidence samples."""
        ats = []
        for i, a in enumerate(self.atoms):
            s = SYM_OF[a[0]]
            if a[1]:
                s = f"{a[1]}{s}"
            if a[2]:
                s += "." * 1 + f"r{a[2]}"
            ats.append(s)
        if self.n > 24:
            return f"{self.family}:n={self.n},m={self.m},formula={self.formula_hill()}"
        bs = ",".join(f"{i}-{j}" for i, j, _ in self.bonds)
        return f"{self.family}:[{' '.join(ats)}]{{{bs}}}"


def case_digest(obj):
    s = json.dumps(obj, separators=(",", ":"), sort_keys=True, default=str)
    return hashlib.sha1(s.encode()).hexdigest()[:16]
