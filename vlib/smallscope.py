"""Small-scope exhaustive sweeps: every coloured graph up to isomorphism with n <= nmax atoms
over a small palette (own orbit enumeration from vlib/iso.py), each handed to a property's
per-molecule function in 16 worker processes.  Used by C01 / C03 / C13 as a complement to
the random search: below the bound nothing is left to chance."""

from __future__ import annotations

import multiprocessing as mp

from . import iso
from .mol import Mol

PALETTE = [(6, 0, 0), (6, 13, 0), (8, 0, 0), (6, 0, 2)]  # C, 13C, O, C radical


def _worker(args):
    modname, fname, n, mask, pairs, palette = args
    import importlib

    from .lib import Violation
    from .runner import bucket_of

    fn = getattr(importlib.import_module(modname), fname)
    es, auts = iso.aut_group(n, mask, pairs)
    out = {"n": 0, "evals": 0, "failures": []}
    for colouring in iso.colouring_classes(n, auts, len(palette)):
        atoms = [[palette[c][0], palette[c][1], palette[c][2], 0, float(i), 0.0, 0.0] for i, c in enumerate(colouring)]
        mol = Mol(atoms, [[a, b, 1] for a, b in es], f"smallscope:n{n}")
        out["n"] += 1
        try:
            out["evals"] += fn(mol) or 1
        except Violation as v:
            if len(out["failures"]) < 2:
                out["failures"].append({"sub": v.sub, "message": v.msg, "details": {}, "case": {"smallscope": mol.to_json()},
                                        "bucket": list(bucket_of(v)), "phase": "smallscope"})
    return out


def sweep(modname, fname, nmax, ncolours):
    """Apply module.function(mol) to every class; returns (classes, evaluations, failures)."""
    palette = PALETTE[:ncolours]
    jobs = []
    for n in range(1, nmax + 1):
        reps, pairs = iso.graph_classes(n)
        if len(reps) != iso.KNOWN_GRAPH_COUNTS[n]:
            raise iso.HarnessError(f"graph class enumeration for n={n} gave {len(reps)} classes")
        jobs += [(modname, fname, n, mask, pairs, palette) for mask in reps]
    classes = evals = 0
    failures = []
    with mp.get_context("fork").Pool(16) as pool:
        for r in pool.imap_unordered(_worker, jobs, chunksize=2):
            classes += r["n"]
            evals += r["evals"]
            failures.extend(r["failures"])
    return classes, evals, failures[:4]
