"""Independent isomorphism / symmetry oracles (no igraph, no bliss, no tucan).

* find_isomorphism: individualisation-refinement search for a colour-preserving
  isomorphism between two coloured graphs; any mapping returned is verified edge by edge
  (the verification is the trusted part); `None` answers are cross-checked against
  networkx VF2 for small graphs (disagreement = harness error).
* automorphisms: generators-free enumeration of up to `limit` automorphisms by the same search.
* small-graph enumeration up to isomorphism (n <= 7) for the exhaustive part of C02.
"""

from __future__ import annotations

import itertools


class HarnessError(Exception):
    pass


def _refine(adj, col):
    """Colour refinement to the coarsest equitable partition finer than `col`.
    Colours are replaced by canonical ranks of (old colour, sorted neighbour colours), so
    two graphs refined in lock-step (joint graph) stay comparable."""
    n = len(adj)
    ncol = len(set(col))
    while True:
        keys = [(col[v], tuple(sorted(col[w] for w in adj[v]))) for v in range(n)]
        rank = {k: r for r, k in enumerate(sorted(set(keys)))}
        new = [rank[k] for k in keys]
        k2 = len(rank)
        col = new
        if k2 == ncol:
            return col
        ncol = k2


def _joint(adjA, adjB):
    nA = len(adjA)
    return [list(x) for x in adjA] + [[w + nA for w in x] for x in adjB]


def verify_mapping(colsA, edgesA, colsB, edgesB, mapping):
    n = len(colsA)
    if len(colsB) != n or sorted(mapping) != list(range(n)) or sorted(mapping[i] for i in range(n)) != list(range(n)):
        return False
    for i in range(n):
        if colsA[i] != colsB[mapping[i]]:
            return False
    ea = {frozenset((mapping[a], mapping[b])) for a, b in edgesA}
    eb = {frozenset((a, b)) for a, b in edgesB}
    return ea == eb and len(ea) == len({frozenset(e) for e in edgesA})


def find_isomorphism(colsA, edgesA, colsB, edgesB, node_budget=4000):
    """Return a list mapping A-vertex -> B-vertex, or None if none exists.
    Returns "budget" when the search budget is exhausted (inconclusive)."""
    n = len(colsA)
    if n != len(colsB) or len(edgesA) != len(edgesB):
        return None
    if sorted(colsA) != sorted(colsB):
        return None
    adjA = [[] for _ in range(n)]
    adjB = [[] for _ in range(n)]
    for a, b in edgesA:
        adjA[a].append(b)
        adjA[b].append(a)
    for a, b in edgesB:
        adjB[a].append(b)
        adjB[b].append(a)
    adj = _joint(adjA, adjB)
    ranks = {c: r for r, c in enumerate(sorted(set(colsA)))}
    col0 = [ranks[c] for c in colsA] + [ranks[c] for c in colsB]
    # the budget is work-like: each search node costs about (n + m) * rounds; keep the total bounded
    budget = [max(16, min(node_budget, 4_000_000 // ((n + len(edgesA)) * 8 + 1)))]

    def search(col):
        budget[0] -= 1
        if budget[0] < 0:
            return "budget"
        col = _refine(adj, col)
        cellsA, cellsB = {}, {}
        for v in range(n):
            cellsA.setdefault(col[v], []).append(v)
        for v in range(n, 2 * n):
            cellsB.setdefault(col[v], []).append(v - n)
        if cellsA.keys() != cellsB.keys():
            return None
        for c in cellsA:
            if len(cellsA[c]) != len(cellsB[c]):
                return None
        target = None
        for c in sorted(cellsA):
            if len(cellsA[c]) > 1 and (target is None or len(cellsA[c]) < len(cellsA[target])):
                target = c
        if target is None:
            mapping = [None] * n
            for c in cellsA:
                mapping[cellsA[c][0]] = cellsB[c][0]
            return mapping
        a = cellsA[target][0]
        fresh = max(col) + 1
        saw_budget = False
        for b in cellsB[target]:
            c2 = list(col)
            c2[a] = fresh
            c2[n + b] = fresh
            r = search(c2)
            if r == "budget":
                saw_budget = True
                break
            if r is not None:
                return r
        return "budget" if saw_budget else None

    res = search(col0)
    if res is None or res == "budget":
        return res
    if not verify_mapping(colsA, edgesA, colsB, edgesB, res):
        # the discrete partition does not describe an isomorphism; search the hard way
        return _vf2(colsA, edgesA, colsB, edgesB)
    return res


def _vf2(colsA, edgesA, colsB, edgesB):
    import networkx as nx
    from networkx.algorithms.isomorphism import GraphMatcher

    ga, gb = nx.Graph(), nx.Graph()
    for i, c in enumerate(colsA):
        ga.add_node(i, c=c)
    for i, c in enumerate(colsB):
        gb.add_node(i, c=c)
    ga.add_edges_from(edgesA)
    gb.add_edges_from(edgesB)
    gm = GraphMatcher(ga, gb, node_match=lambda x, y: x["c"] == y["c"])
    if gm.is_isomorphic():
        m = gm.mapping
        return [m[i] for i in range(len(colsA))]
    return None


def isomorphic(colsA, edgesA, colsB, edgesB, crosscheck_n=10):
    """True / False / None (inconclusive).  Independent double-check for small graphs."""
    r = find_isomorphism(colsA, edgesA, colsB, edgesB)
    if r == "budget":
        return None
    ans = r is not None
    if len(colsA) <= crosscheck_n:
        v = _vf2(colsA, edgesA, colsB, edgesB) is not None
        if v != ans:
            raise HarnessError("own isomorphism search and networkx VF2 disagree")
    return ans


def automorphisms(cols, edges, limit=200, node_budget=20000):
    """Up to `limit` colour-preserving automorphisms (as lists), found by
    individualisation-refinement on two copies; each is verified."""
    n = len(cols)
    adj1 = [[] for _ in range(n)]
    for a, b in edges:
        adj1[a].append(b)
        adj1[b].append(a)
    adj = _joint(adj1, adj1)
    ranks = {c: r for r, c in enumerate(sorted(set(cols)))}
    col0 = [ranks[c] for c in cols] * 2
    out = []
    budget = [node_budget]

    def search(col):
        if len(out) >= limit or budget[0] <= 0:
            return
        budget[0] -= 1
        col = _refine(adj, col)
        cellsA, cellsB = {}, {}
        for v in range(n):
            cellsA.setdefault(col[v], []).append(v)
        for v in range(n, 2 * n):
            cellsB.setdefault(col[v], []).append(v - n)
        if cellsA.keys() != cellsB.keys() or any(len(cellsA[c]) != len(cellsB[c]) for c in cellsA):
            return
        target = None
        for c in sorted(cellsA):
            if len(cellsA[c]) > 1 and (target is None or len(cellsA[c]) < len(cellsA[target])):
                target = c
        if target is None:
            mapping = [None] * n
            for c in cellsA:
                mapping[cellsA[c][0]] = cellsB[c][0]
            if verify_mapping(cols, edges, cols, edges, mapping):
                out.append(mapping)
            return
        a = cellsA[target][0]
        fresh = max(col) + 1
        for b in cellsB[target]:
            c2 = list(col)
            c2[a] = fresh
            c2[n + b] = fresh
            search(c2)
            if len(out) >= limit:
                return

    search(col0)
    return out


# ------------------------------------------------------------------ small enumeration


def _pairs(n):
    return list(itertools.combinations(range(n), 2))


def graph_classes(n):
    """One edge-mask representative per isomorphism class of simple graphs on n vertices
    (orbits of S_n on edge masks via union-find over two generators)."""
    pairs = _pairs(n)
    pidx = {p: k for k, p in enumerate(pairs)}
    N = 1 << len(pairs)

    def permute_mask(mask, perm):
        out = 0
        k = 0
        m = mask
        while m:
            if m & 1:
                a, b = pairs[k]
                x, y = perm[a], perm[b]
                out |= 1 << pidx[(x, y) if x < y else (y, x)]
            m >>= 1
            k += 1
        return out

    if n == 1:
        return [0], pairs
    gens = [list(range(n)), list(range(n))]
    gens[0][0], gens[0][1] = 1, 0
    gens[1] = [(i + 1) % n for i in range(n)]
    parent = list(range(N))

    def find(x):
        while parent[x] != x:
            parent[x] = parent[parent[x]]
            x = parent[x]
        return x

    for mask in range(N):
        for g in gens:
            o = permute_mask(mask, g)
            ra, rb = find(mask), find(o)
            if ra != rb:
                if ra < rb:
                    parent[rb] = ra
                else:
                    parent[ra] = rb
    reps = sorted({find(x) for x in range(N)})
    return reps, pairs


def aut_group(n, mask, pairs):
    pidx = {p: k for k, p in enumerate(pairs)}
    es = [pairs[k] for k in range(len(pairs)) if mask >> k & 1]
    eset = set(es)
    auts = []
    for perm in itertools.permutations(range(n)):
        ok = True
        for a, b in es:
            x, y = perm[a], perm[b]
            if ((x, y) if x < y else (y, x)) not in eset:
                ok = False
                break
        if ok:
            auts.append(perm)
    return es, auts


def colouring_classes(n, auts, ncol):
    """One representative colouring (tuple of colour indices) per orbit of Aut(G)."""
    seen = set()
    reps = []
    for colouring in itertools.product(range(ncol), repeat=n):
        if colouring in seen:
            continue
        reps.append(colouring)
        for p in auts:
            img = [0] * n
            for v in range(n):
                img[p[v]] = colouring[v]
            seen.add(tuple(img))
    return reps


KNOWN_GRAPH_COUNTS = {1: 1, 2: 2, 3: 4, 4: 11, 5: 34, 6: 156, 7: 1044}
