import sys

from .runner import main

try:
    rc = main()
except SystemExit:
    raise
except BaseException:  # noqa: BLE001
    import traceback

    traceback.print_exc()
    print("HARNESS ERROR")
    rc = 2
sys.exit(rc)
