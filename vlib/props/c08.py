"""C08 - the V2000 reader agrees with V3000 on the same molecule (differential + model)."""

from __future__ import annotations

from hypothesis import strategies as st

from .. import gens, styles
from ..lib import Violation, call, graph_from_molfile_text, pipeline
from ..mol import Mol, case_digest
from ..render import render_v2000, render_v3000
from .c07 import compare

ID = "C08"
RULE = (
    "case = abstract molecule (<=999 atoms; charges -15..15, rad 0..3, mass <=999, coordinates "
    "with <=4 decimals, bond types 1..9) x own spec-conformant V2000 rendering: charge/radical by "
    "atom-block code or M  CHG / M  RAD (stale atom-block codes left in place when M lines exist), "
    "M  ISO grouped 1..8 entries per line over several lines, D/T symbols together with M  ISO "
    "lines for other atoms, zero-valued entries, unrelated property lines (A/V/G/M  STY/SAL/RGP/"
    "ALS/APO/...), atom-list lines, truncated atom lines, LF/CRLF; oracle: read(v2000) equals the "
    "abstract molecule attribute for attribute (node order, Z, chg, rad, mass, coordinates, bond "
    "types), read(own V3000 rendering) equals it too, and both give the same TUCAN string. "
    "Non-trivial = an M line with >=3 entries, or stale codes superseded by M lines, or D/T "
    "together with M  ISO, or >=100 atoms; distinct by case digest."
)
MANIFEST = {
    "text": "Differential + model-based search: one abstract molecule is rendered by independent code as V2000 (all encodings of charge / radical / isotope the format offers, any grouping of entries into property lines, unrelated lines in between) and as V3000; both readings must equal the abstract molecule and give one TUCAN string.",
    "note": "Trusted: vlib/render.py for the V2000 subset the reader claims (no 'dd' mass differences, no S  SKP, alias text not starting with 'M  ').",
    "technique": "property-based differential/model-based testing with independent V2000 and V3000 renderers (Hypothesis, 16 shards) + Atheris in the thorough tier",
}
FUZZ = {"procs": 12, "runs": 20000, "timeout": 1500}
ASSUMPTIONS = ["'dd' mass-difference field always 0 (the reader documents that it ignores it)"]


def budget(tier):
    return {"examples": 450 if tier == "quick" else 12000, "shards": 16, "wall": 150 if tier == "quick" else 3000}


@st.composite
def strategy_(draw, tier):
    mol = draw(st.one_of(gens.mols(tier, families=("er", "skeleton", "chem", "er")), gens.fam_chem(8), gens.fam_er(120 if tier == "quick" else 400)))
    n, m = len(mol["atoms"]), len(mol["bonds"])
    # V2000-specific decoration: radicals 1..3, charges beyond the code range, D/T
    hmode = draw(st.sampled_from(["asis", "dt", "charged"]))
    if hmode != "asis" and n <= 200:
        for k, a in enumerate(mol["atoms"]):
            r = draw(st.integers(0, 5))
            if hmode == "dt" and a[0] == 1 and r < 3:
                a[1] = draw(st.sampled_from([2, 3, 2, 3, 1]))
            elif hmode == "charged" and r == 0:
                a[3] = draw(st.sampled_from([1, -1, 2, 3, -3, 4, -7, 15, -15]))
            elif hmode == "charged" and r == 1:
                a[2] = draw(st.sampled_from([1, 2, 2, 3]))
    lst = draw(gens.listing(n, m))
    lst.pop("pi")
    lst.pop("keys")
    return {"mol": mol, "listing": lst, "style": draw(styles.v2000_styles())}


def strategy(tier):
    return strategy_(tier)


def clamp(mol):
    atoms = [[a[0], min(a[1], 999), min(a[2], 3), max(-15, min(15, a[3])), round(max(-9999.0, min(9999.0, a[4])), 4), round(max(-9999.0, min(9999.0, a[5])), 4), round(max(-9999.0, min(9999.0, a[6])), 4)] for a in mol.atoms]
    return Mol(atoms, [[i, j, min(max(t, 1), 9)] for i, j, t in mol.bonds], mol.family)


def check(case, stats):
    mol = clamp(Mol.from_json(case["mol"]))
    if mol.n > 999 or mol.m > 999:
        return
    text, model = render_v2000(mol, case["listing"], case["style"], with_model=True)
    g2 = call("read-v2000", graph_from_molfile_text, text)
    stats.evaluated()
    compare(g2, model, "v2000")
    lst3 = dict(case["listing"])
    lst3["keys"] = list(range(1, mol.n + 1))
    t3, m3 = render_v3000(mol, lst3, {"seed": case["style"]["seed"], "coord_fmt": "f4"}, with_model=True)
    g3 = call("read-v3000", graph_from_molfile_text, t3)
    compare(g3, m3, "v3000")
    if m3["atoms"] != model["atoms"] or m3["bonds"] != model["bonds"]:
        from ..iso import HarnessError

        raise HarnessError("V2000 and V3000 models of one molecule differ (renderer bug)")
    s2 = pipeline(g2, "pipeline-v2000")
    s3 = pipeline(g3, "pipeline-v3000")
    if s2 != s3:
        raise Violation("strings-differ", f"V2000 rendering gives {s2!r}, V3000 rendering gives {s3!r}")
    feats = []
    if model["max_entries_per_line"] >= 3:
        feats.append("M_line_with>=3_entries")
    if model["stale"]:
        feats.append("stale_codes_superseded")
    if model["dt_with_iso"]:
        feats.append("DT_with_M_ISO")
    if mol.n >= 100:
        feats.append("n>=100")
    stats.label("encoding:" + model["encoding"])
    for f in feats:
        stats.label(f)
    stats.maximum("max_entries_per_line", model["max_entries_per_line"])
    stats.maximum("max_prop_lines", model["n_prop_lines"])
    stats.maximum("max_atoms", mol.n)
    if feats:
        stats.mark_nontrivial(case_digest(case), {"mol": mol.brief(), "features": feats, "file_excerpt": text[-500:]})
