"""C07 - the V3000 reader decodes exactly the molecule the file states (model-based)."""

from __future__ import annotations

import os
import tempfile

from hypothesis import strategies as st

from .. import gens, styles
from ..lib import GA, Violation, call, graph_from_file, graph_from_molfile_text, pipeline
from ..mol import Mol, case_digest
from ..render import render_v3000
from ..runner import ROOT

ID = "C07"
RULE = (
    "case = abstract molecule x own spec-conformant V3000 rendering: continuation splits at drawn "
    "positions of any `M  V30` line (forced beyond 72 chars; every split position of one drawn "
    "line is enumerated per case), blank runs, property order, arbitrary unique indices, extra "
    "spec keywords (incl. EXACHG next to CHG), explicit CHG=0/RAD=0/MASS=0, D/T, star atoms with "
    "ENDPTS lists of up to 20+ endpoints in either endpoint order, trailing SGROUP/COLLECTION "
    "blocks, LF/CRLF/CR; oracle: node k = k-th non-star atom line with symbol, Z (own table), "
    "chg/rad/mass (absent == 0), coordinates == float(token), edge set with bond types, one edge "
    "per ENDPTS entry; graph_from_file agrees with graph_from_molfile_text; the plain rendering of "
    "the same molecule gives the same TUCAN string. Non-trivial = a continuation split, shuffled "
    "properties, an extra keyword, a star atom, non-consecutive indices or an explicit default; "
    "distinct by case digest."
)
MANIFEST = {
    "text": "Model-based search: the abstract molecule is the model, an independent renderer produces the many spellings the V3000 format permits, and the reader's graph is compared attribute for attribute with the model (not with another reading). Thresholds are pushed past the corpus (ENDPTS > 5, multi-wrap lines, 4-digit indices). Thorough adds a coverage-guided Atheris campaign over the same property.",
    "note": "Trusted: vlib/render.py produces conformant files for the subset of the CTfile spec the reader claims (no query atoms, no quoted strings with blanks, header lines printable ASCII not starting with 'M  ').",
    "technique": "property-based model-based testing with an independent V3000 renderer (Hypothesis, 16 shards) + Atheris in the thorough tier",
}
FUZZ = {"procs": 12, "runs": 20000, "timeout": 1500}
ASSUMPTIONS = ["renderer output is spec-conformant for the reader's claimed subset", "str.splitlines-only separators (FF, NEL, LS) are not placed in headers"]


def budget(tier):
    return {"examples": 450 if tier == "quick" else 12000, "shards": 16, "wall": 150 if tier == "quick" else 3000}


@st.composite
def strategy_(draw, tier):
    mol = draw(st.one_of(gens.mols(tier, families=("er", "skeleton", "chem", "er")), gens.fam_skeleton(big=True), gens.fam_er(30)))
    n, m = len(mol["atoms"]), len(mol["bonds"])
    lst = draw(gens.listing(n, m))
    lst.pop("pi")
    return {"mol": mol, "listing": lst, "style": draw(styles.v3000_styles()), "split_line": draw(st.integers(0, 10**6)),
            "via_file": draw(st.integers(0, 7)) == 0}


def strategy(tier):
    return strategy_(tier)


def clamp(mol):
    return Mol([[a[0], min(a[1], 999), min(a[2], 3), max(-15, min(15, a[3])), a[4], a[5], a[6]] for a in mol.atoms], mol.bonds, mol.family)


def compare(g, model, sub, ctx=""):
    n = len(model["atoms"])
    if list(g.nodes) != list(range(n)):
        raise Violation(sub + ":nodes", f"{ctx}reader returned nodes {list(g.nodes)[:12]}, expected 0..{n-1} in file order")
    for k, (sym, z, chg, rad, mass, x, y, zc) in enumerate(model["atoms"]):
        d = g.nodes[k]
        got = (d.get(GA.ELEMENT_SYMBOL), d.get(GA.ATOMIC_NUMBER), d.get(GA.CHG, 0) or 0, d.get(GA.RAD, 0) or 0, d.get(GA.MASS, 0) or 0)
        if got != (sym, z, chg, rad, mass):
            raise Violation(sub + ":atom", f"{ctx}atom line {k+1}: file states (symbol, Z, chg, rad, mass) = {(sym, z, chg, rad, mass)}, reader gives {got}")
        gc = (d.get(GA.X_COORD), d.get(GA.Y_COORD), d.get(GA.Z_COORD))
        if gc != (x, y, zc):
            raise Violation(sub + ":coordinates", f"{ctx}atom line {k+1}: coordinates {(x, y, zc)} read as {gc}")
    got_b = {frozenset((a, b)): d.get(GA.BOND_TYPE) for a, b, d in g.edges(data=True)}
    if got_b != model["bonds"]:
        miss = [(sorted(k), v) for k, v in model["bonds"].items() if got_b.get(k) != v][:4]
        extra = [(sorted(k), v) for k, v in got_b.items() if k not in model["bonds"]][:4]
        raise Violation(sub + ":bonds", f"{ctx}bonds differ: expected-but-wrong/missing {miss}, unexpected {extra}")


def check(case, stats):
    mol = clamp(Mol.from_json(case["mol"]))
    style = case["style"]
    text, model = render_v3000(mol, case["listing"], style, with_model=True)
    g = call("read", graph_from_molfile_text, text)
    stats.evaluated()
    compare(g, model, "read")
    if case.get("via_file"):
        # one path per worker process, overwritten for every case: what is returned must be
        # what the file contains NOW (a reader remembering earlier content would show)
        d = os.path.join(ROOT, ".work", f"c07_{os.getpid()}")
        os.makedirs(d, exist_ok=True)
        path = os.path.join(d, "current.mol")
        with open(path, "w", newline="") as fh:
            fh.write(text)
        try:
            gf = call("read-file", graph_from_file, path)
        finally:
            os.unlink(path)
            try:
                os.rmdir(d)
            except OSError:
                pass
        compare(gf, model, "read-file")
        stats.label("via_graph_from_file")
    # explicit defaults / spelling must not leak into the identifier
    plain = render_v3000(mol, case["listing"], {"seed": 0})
    s1 = pipeline(g, "pipeline")
    s2 = pipeline(call("read", graph_from_molfile_text, plain), "pipeline-plain")
    if s1 != s2:
        raise Violation("spelling-leaks-into-string", f"styled rendering gives {s1!r}, plain rendering of the same molecule gives {s2!r}")
    # every continuation point of one line
    base_style = dict(style)
    base_style["split"] = "none"
    base_style["split_counts"] = False
    _, m0 = render_v3000(mol, case["listing"], base_style, with_model=True)
    contents = m0["contents"]
    li = case["split_line"] % len(contents)
    if len(contents[li]) <= 72:
        for pos in range(1, len(contents[li])):
            t2, m2 = render_v3000(mol, case["listing"], base_style, with_model=True, split_override=(li, pos))
            g2 = call("read", graph_from_molfile_text, t2)
            stats.evaluated()
            compare(g2, m2, "read-split", ctx=f"line {contents[li]!r} continued after {pos} chars: ")
        stats.label("split_positions_enumerated", len(contents[li]) - 1)
    # classification
    feats = []
    if "-\n" in text.replace("\r\n", "\n").replace("\r", "\n"):
        feats.append("continuation")
    if style.get("prop_shuffle"):
        feats.append("prop_shuffle")
    if style.get("extras") or style.get("exachg"):
        feats.append("extra_keywords")
    if model["n_star_groups"]:
        feats.append("star_atom")
    if case["listing"]["keys"] != list(range(1, mol.n + 1)):
        feats.append("nonconsecutive_indices")
    if style.get("explicit_zero"):
        feats.append("explicit_default")
    if style.get("exachg"):
        feats.append("exachg")
    if style.get("blanks", 1) > 1:
        feats.append("blank_runs")
    for f in feats:
        stats.label(f)
    stats.maximum("max_endpts", model["max_endpts"])
    stats.maximum("max_atoms", mol.n)
    stats.maximum("max_line_chunks", max(1, max((len(c) + 70) // 71 for c in contents)))
    if feats:
        stats.mark_nontrivial(case_digest(case), {"mol": mol.brief(), "features": feats, "file_excerpt": text[:400]})
