"""C03 - a TUCAN string reconstructs its molecule and is a fixed point (round-trip)."""

from __future__ import annotations

from hypothesis import strategies as st

from .. import gens, iso
from ..lib import Violation, call, graph_from_tucan, graph_identity, mol_to_graph, pipeline
from ..mol import Mol, case_digest
from ..ptable import SYM_OF

ID = "C03"
RULE = (
    "case = abstract molecule (all families; labels up to 1e9 through the graph constructor; all "
    "118 elements; n up to 130/400) in a drawn listing order; oracle: parse(tucan(G)) has the "
    "same atom/bond counts (also for EVERY coloured graph with n<=5 / n<=6 atoms over 3 colours - exhaustive small scope - and for molecules taken through the readers with explicitly written defaults), is colour-preserving isomorphic to the ABSTRACT molecule (own "
    "individualisation-refinement search, mapping verified edge by edge; VF2 cross-check for "
    "n<=10) and re-serialises to the identical string. Non-trivial = >=2 elements whose symbol "
    "order differs from Z order, or >=10 atoms, or >=2 labelled atoms of one element; distinct "
    "by digest of the case."
)
MANIFEST = {
    "text": "Round-trip search: for generated molecules (all 118 elements, isotope/radical values up to 1e9, up to hundreds of atoms, symmetric and WL-hard skeletons) the emitted string is parsed back and compared with the abstract molecule by an independent isomorphism search whose witness mapping is verified edge by edge, and re-serialised to test the fixed point. Cannot prove the round-trip for all molecules.",
    "note": "Trusted: verify_mapping (colour equality + edge bijection) and the abstract model. A negative isomorphism answer for n<=10 is cross-checked with networkx VF2.",
    "technique": "property-based testing: round-trip + isomorphism oracle independent of igraph/bliss (Hypothesis, 16 shards) + exhaustive round trip of all coloured graphs n<=5/6",
}
ASSUMPTIONS = ["isomorphism search budget: exhausted budget is counted as inconclusive, never as a violation"]


def budget(tier):
    return {"examples": 320 if tier == "quick" else 12000, "shards": 16, "wall": 150 if tier == "quick" else 3000}


@st.composite
def strategy_(draw, tier):
    mol = draw(st.one_of(gens.mols(tier, wide=True), gens.mols(tier), gens.fam_er(130 if tier == "quick" else 400, wide=True)))
    n = len(mol["atoms"])
    case = {"mol": mol, "order": draw(gens.perms(n)), "post": draw(st.sampled_from(["none", "none", "relabel", "recanon", "reuse"]))}
    # producer: the graph constructor, or one of the readers on an own rendering (explicitly
    # written defaults such as MASS=0 / zero-valued M lines included)
    prod = draw(st.sampled_from(["graph", "graph", "graph", "v3000", "v2000"]))
    case["producer"] = prod
    if prod == "v3000":
        from .. import styles

        case["style"] = draw(styles.v3000_styles(allow_exachg=False, allow_stars=False))
    elif prod == "v2000":
        from .. import styles

        case["style"] = draw(styles.v2000_styles())
    return case


def strategy(tier):
    return strategy_(tier)


def check(case, stats):
    mol = Mol.from_json(case["mol"])
    n = mol.n
    from .c01 import molfile_ok, post_process

    prod = case.get("producer", "graph")
    if prod != "graph" and not molfile_ok(mol, prod):
        prod = "graph"
    if prod == "graph":
        g = post_process(mol_to_graph(mol, case["order"]), {"post": case.get("post", "none"), "pi": case["order"]})
        stats.label("post:" + case.get("post", "none"))
    else:
        from ..lib import graph_from_molfile_text
        from ..render import render_v2000, render_v3000

        lst = {"order": case["order"]}
        text = render_v3000(mol, lst, case["style"]) if prod == "v3000" else render_v2000(mol, lst, case["style"])
        g = call("read", graph_from_molfile_text, text)
    stats.label("producer:" + prod)
    s = pipeline(g, "first")
    g2 = call("parse", graph_from_tucan, s)
    stats.evaluated()
    if g2.number_of_nodes() != n or g2.number_of_edges() != len(mol.edge_set()):
        raise Violation("counts", f"{s!r}: parsed graph has {g2.number_of_nodes()} atoms / {g2.number_of_edges()} bonds, molecule has {n} / {len(mol.edge_set())}", string=s)
    cols2, edges2 = graph_identity(g2)
    nodes2 = list(g2.nodes)
    idx = {v: k for k, v in enumerate(nodes2)}
    for v in nodes2:
        if g2.nodes[v].get("element_symbol") != SYM_OF.get(g2.nodes[v].get("atomic_number")):
            raise Violation("symbol", f"{s!r}: parsed atom {v} has inconsistent symbol/atomic number", string=s)
    colsB = [cols2[v] for v in nodes2]
    edgesB = [tuple(idx[x] for x in e) for e in edges2]
    colsA = [mol.colour(i) for i in range(n)]
    edgesA = [tuple(sorted(e)) for e in mol.edge_set()]
    r = iso.isomorphic(colsA, edgesA, colsB, edgesB)
    if r is None:
        stats.label("isomorphism_inconclusive_budget")
    elif not r:
        raise Violation("isomorphism", f"parse({s!r}) is not isomorphic (element, mass, rad) to the molecule {mol.brief()}", string=s)
    s2 = pipeline(g2, "second")
    if s2 != s:
        raise Violation("fixed-point", f"tucan(parse(s)) = {s2!r} != s = {s!r}", string=s, again=s2)
    # classification
    syms = sorted({mol.symbol(i) for i in range(n)})
    zorder = [SYM_OF[z] for z in sorted({a[0] for a in mol.atoms})]
    from ..ptable import hill_order

    nonz = hill_order(syms) != zorder
    lab = {}
    for a in mol.atoms:
        if a[1] or a[2]:
            lab[a[0]] = lab.get(a[0], 0) + 1
    multi_lab = any(v >= 2 for v in lab.values())
    both = any(a[1] and a[2] for a in mol.atoms)
    stats.label("family:" + mol.family.split(":")[0])
    stats.maximum("max_atoms", n)
    stats.maximum("max_label_value", max([max(a[1], a[2]) for a in mol.atoms] + [0]))
    stats.maximum("max_Z", max(a[0] for a in mol.atoms))
    if both:
        stats.label("atom_with_mass_and_rad")
    if n >= 100:
        stats.label("n>=100")
    if nonz:
        stats.label("formula_order!=Z_order")
    if (nonz and len(syms) >= 2) or n >= 10 or multi_lab:
        stats.mark_nontrivial(case_digest(case), {"mol": mol.brief(), "string": s[:240]})


def smallscope_fn(mol):
    from ..runner import Stats

    check({"mol": mol.to_json(), "order": list(range(mol.n)), "post": "none", "producer": "graph"}, Stats())
    return 1


def replay_extra(rec, stats):
    if "smallscope" in rec["case"]:
        smallscope_fn(Mol.from_json(rec["case"]["smallscope"]))
    else:
        check(rec["case"], stats)


def extra(ctx):
    """Small-scope exhaustive sweep: the round trip for every coloured graph below the bound."""
    from .. import smallscope
    from ..runner import Stats

    nmax, ncol = (5, 3) if ctx["tier"] == "quick" else (6, 3)
    classes, evals, fails = smallscope.sweep(__name__, "smallscope_fn", nmax, ncol)
    stats = Stats()
    stats.evaluated(evals)
    stats.label("smallscope_classes", classes)
    return {"failures": fails, "stats": stats.dump(), "info": {"smallscope": f"round trip of all {classes} coloured graphs with n<={nmax} over {ncol} colours"}}
