"""C06 - TUCAN depends only on elements, isotopes, radicals and connectivity (metamorphic)."""

from __future__ import annotations

import random

from hypothesis import strategies as st

from .. import gens, styles
from ..lib import Violation, call, graph_from_molfile_text, mol_to_graph, pipeline
from ..mol import Mol, case_digest
from ..render import render_v2000, render_v3000

ID = "C06"
RULE = (
    "case = one abstract molecule (identity data: elements, masses, radicals, bonds; atom and "
    "bond order fixed) x two independently drawn renderings differing only in non-identity data: "
    "coordinates, bond types (1..10 / 1..9), formal charges incl. resonance-style moves (a +/- "
    "pair placed on a path whose bond orders alternate), header lines, file index values, extra "
    "spec keywords and trailing blocks, explicit defaults, continuation splits, blank runs, "
    "LF/CRLF/CR; V3000-V3000, V2000-V2000 and V3000-V2000 pairs; oracle: identical pipeline "
    "strings, also equal to the string of the bare identity data through the graph constructor. "
    "Non-trivial = molecule has >=1 bond and the two renderings differ in >=2 kinds of "
    "non-identity data; distinct by case digest."
)
MANIFEST = {
    "text": "Metamorphic search: two independently styled molfile renderings of one molecule that differ only in data TUCAN is documented to ignore (coordinates, bond orders, charges, headers, index values, unrelated keywords/blocks, line endings), across V3000/V2000, must give the identical string. Atom/bond order is held fixed so a failure is attributable to the ignored data.",
    "note": "Trusted: own renderers; identity data = (Z, mass, rad, edge set).",
    "technique": "property-based testing: metamorphic relation over pairs of renderings (Hypothesis, 16 shards)",
}
ASSUMPTIONS = ["search, not proof"]


def budget(tier):
    return {"examples": 450 if tier == "quick" else 12000, "shards": 16, "wall": 150 if tier == "quick" else 3000}


@st.composite
def rendering(draw, n):
    fmt = draw(st.sampled_from(["v3000", "v3000", "v2000"]))
    return {"fmt": fmt, "nonid_seed": draw(st.integers(0, 2**31)),
            "kinds": draw(st.lists(st.sampled_from(["coords", "bond_types", "charges", "resonance"]), unique=True, max_size=4)),
            "style": draw(styles.v3000_styles() if fmt == "v3000" else styles.v2000_styles()),
            "keys": draw(gens.unique_keys(n))}


@st.composite
def strategy_(draw, tier):
    mol = draw(st.one_of(gens.mols(tier, families=("er", "skeleton", "chem", "chem", "wlhard")), gens.fam_chem(10)))
    n = len(mol["atoms"])
    return {"mol": mol, "a": draw(rendering(n)), "b": draw(rendering(n))}


def strategy(tier):
    return strategy_(tier)


def apply_nonid(base, r, v2000):
    """Copy of `base` with non-identity data redrawn from r's seed."""
    rnd = random.Random(r["nonid_seed"])
    m = base.identity_only()
    kinds = r["kinds"]
    if "coords" in kinds:
        for a in m.atoms:
            a[4], a[5], a[6] = (round(rnd.uniform(-50, 50), 4) for _ in range(3))
    if "bond_types" in kinds:
        hi = 9 if v2000 else 10
        for b in m.bonds:
            b[2] = rnd.randint(1, hi)
    if "charges" in kinds:
        for a in m.atoms:
            if rnd.random() < 0.3:
                a[3] = rnd.choice([1, -1, 2, -2, 3, -3, 4, -8, 15, -15])
    if "resonance" in kinds and m.m:
        adj = m.adjacency()
        v = rnd.randrange(m.n)
        path = [v]
        for _ in range(rnd.randint(1, 6)):
            nxt = [w for w in adj[path[-1]] if w not in path]
            if not nxt:
                break
            path.append(rnd.choice(nxt))
        if len(path) >= 2:
            m.atoms[path[0]][3] = 1
            m.atoms[path[-1]][3] = -1
            on = {frozenset(p): (2 if k % 2 == 0 else 1) for k, p in enumerate(zip(path, path[1:]))}
            for b in m.bonds:
                if frozenset(b[:2]) in on:
                    b[2] = on[frozenset(b[:2])]
    return m


def clamp_identity(mol):
    return Mol([[a[0], min(a[1], 999), min(a[2], 3), 0, 0.0, 0.0, 0.0] for a in mol.atoms], [[i, j, 1] for i, j, _ in mol.bonds], mol.family)


def render(base, r):
    v2 = r["fmt"] == "v2000"
    m = apply_nonid(base, r, v2)
    n = m.n
    listing = {"order": list(range(n)), "bond_order": list(range(m.m)), "flips": [False] * m.m, "keys": r["keys"]}
    if v2:
        return render_v2000(m, listing, r["style"])
    return render_v3000(m, listing, r["style"])


def check(case, stats):
    base = clamp_identity(Mol.from_json(case["mol"]))
    if base.n > 999 or base.m > 999:
        return
    ta = render(base, case["a"])
    tb = render(base, case["b"])
    sa = pipeline(call("read-a", graph_from_molfile_text, ta), "pipeline-a")
    sb = pipeline(call("read-b", graph_from_molfile_text, tb), "pipeline-b")
    stats.evaluated(2)
    if sa != sb:
        raise Violation("nonidentity-data-changes-string", f"{case['a']['fmt']} rendering gives {sa!r}, {case['b']['fmt']} rendering with other non-identity data gives {sb!r}")
    sr = pipeline(mol_to_graph(base), "pipeline-bare")
    if sr != sa:
        raise Violation("nonidentity-data-changes-string", f"bare identity data gives {sr!r}, rendering gives {sa!r}")
    ka, kb = set(case["a"]["kinds"]), set(case["b"]["kinds"])
    diff = len(ka | kb) + (case["a"]["fmt"] != case["b"]["fmt"]) + (case["a"]["keys"] != case["b"]["keys"])
    stats.label("pair:" + "-".join(sorted([case["a"]["fmt"], case["b"]["fmt"]])))
    for k in sorted(ka | kb):
        stats.label("differs_in:" + k)
    if base.m >= 1 and diff >= 2:
        stats.mark_nontrivial(case_digest(case), {"mol": base.brief(), "formats": [case["a"]["fmt"], case["b"]["fmt"]], "kinds": [sorted(ka), sorted(kb)], "string": sa[:160]})
