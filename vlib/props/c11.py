"""C11 - any valid spelling of a molecule normalizes to its one canonical string."""

from __future__ import annotations

import random

from hypothesis import strategies as st

from .. import gens, sentences as sn
from .. import refgrammar as rg
from ..lib import Violation, mol_to_graph, norm_string, pipeline
from ..mol import Mol, case_digest

ID = "C11"
RULE = (
    "case = accepted sentence s (built from the grammar by construction, or the canonical string "
    "of a generated molecule re-read as a structure) x 3 meaning-preserving respellings (tuple "
    "shuffle, endpoint swap, tuple repetition, attribute block reorder/split/merge/key order, "
    "renumbering inside every element block with tuples and attributes renamed); oracle: "
    "norm(s') == norm(s), norm(norm(s)) == norm(s) with norm = serialize.canonicalize.parse, and "
    "norm(s) is accepted by the reference grammar. Non-trivial = s' differs textually from s, "
    ">=2 tuples, and s is not already canonical; distinct by case digest."
)
MANIFEST = {
    "text": "Metamorphic + idempotence search over spellings: valid but non-canonical strings (arbitrary tuple order/orientation/repetition, split attribute blocks, any numbering inside element blocks) and several respellings of each must normalise to one string, and normalising twice must equal normalising once.",
    "note": "Trusted: the respelling transformations preserve the denoted molecule (renumbering stays inside one element block; attributes and tuples are renamed consistently).",
    "technique": "property-based testing: metamorphic relation + idempotence over generated sentences (Hypothesis, 16 shards)",
}
FUZZ = {"procs": 12, "runs": 15000, "timeout": 1500}
ASSUMPTIONS = ["search, not proof"]


def budget(tier):
    return {"examples": 350 if tier == "quick" else 9000, "shards": 16, "wall": 150 if tier == "quick" else 3000}


@st.composite
def strategy_(draw, tier):
    src = draw(st.sampled_from(["grammar", "grammar", "molecule"]))
    if src == "grammar":
        struct = draw(sn.structures(max_atoms=40 if tier == "quick" else 120, max_tuples=40, allow_empty=False))
        return {"src": src, "struct": struct, "seeds": [draw(st.integers(0, 2**31)) for _ in range(3)]}
    mol = draw(gens.mols(tier, families=("er", "skeleton", "chem", "wlhard", "multi")))
    return {"src": src, "mol": mol, "seeds": [draw(st.integers(0, 2**31)) for _ in range(3)]}


def strategy(tier):
    return strategy_(tier)


def struct_of_string(s):
    ref = rg.read(s)
    return {"els": [list(e) for e in ref["formula"]], "tuples": [list(t) for t in ref["tuples_raw"]],
            "blocks": [[i, [[k, int(v)] for k, v in props]] for i, props in ref["attr_blocks_raw"]], "third": ref["has_third"]}


def check(case, stats):
    if case["src"] == "grammar":
        struct = case["struct"]
    else:
        mol = Mol.from_json(case["mol"])
        struct = struct_of_string(pipeline(mol_to_graph(mol), "source"))
    s = sn.spell(struct)
    try:
        rg.read(s)
    except rg.Rejected:
        return  # not an accepted sentence: outside the domain (generator builds valid ones)
    base = norm_string(s, "norm(s)")
    stats.evaluated()
    try:
        rg.read(base)
    except rg.Rejected as e:
        raise Violation("norm-not-accepted", f"norm({s!r}) = {base!r} is rejected by the reference grammar ({e})") from None
    again = norm_string(base, "norm(norm(s))")
    if again != base:
        raise Violation("idempotence", f"norm(norm(s)) = {again!r} != norm(s) = {base!r} for s = {s!r}")
    differs = False
    for k, seed in enumerate(case["seeds"]):
        s2 = sn.spell(sn.respell(struct, random.Random(seed)))
        if s2 != s:
            differs = True
        other = norm_string(s2, "norm(s')")
        stats.evaluated()
        if other != base:
            raise Violation("spelling-invariance", f"norm({s!r}) = {base!r} but norm({s2!r}) = {other!r}")
    stats.label("src:" + case["src"])
    stats.maximum("max_tuples", len(struct["tuples"]))
    if base == s:
        stats.label("s_already_canonical")
    if differs and len(struct["tuples"]) >= 2 and base != s:
        stats.mark_nontrivial(case_digest(case), {"s": s[:160], "norm": base[:160]})
    elif differs and len(struct["tuples"]) >= 2 and case["src"] == "molecule":
        stats.label("canonical_source_respelled")
