"""C15 - the pipeline completes for every non-empty molecule regardless of size/shape."""

from __future__ import annotations

import signal

from hypothesis import strategies as st

from .. import gens
from ..lib import GA, Violation, call, default_recursion, canonicalize_molecule, graph_from_tucan, mol_to_graph, serialize_molecule
from ..mol import Mol, case_digest
from .c13 import check_equitable

ID = "C15"
RULE = (
    "case = (family, size, decoration): path, path with a labelled atom, ring with one labelled "
    "atom, ladder, comb, caterpillar, polyethylene-like CH2 chain with H, peptide-like backbone, "
    "star, isolated atoms, diatomics (thousands of components), complete graph, random tree; heavy "
    "shards draw sizes whose refinement depth is 1000..1100 (quick) / up to 3000 (thorough) or "
    "thousands of atoms/components, light shards sizes 1..200; oracle: canonicalize, serialize and "
    "parse-back return normally (any exception is a violation), parse-back has n atoms and |E| "
    "bonds, the string passes the C05 layout validator (4-digit indices), light cases are fixed "
    "points, and the partition on the result is equitable (C13 clause ii on deep inputs). A case "
    "exceeding the per-case wall budget is recorded as inconclusive, never as a violation. "
    "Non-trivial = own 1-WL needs >=1000 rounds, or n>=2000, or >=1000 components; distinct by "
    "(family, size, decoration)."
)
MANIFEST = {
    "text": "Size-parametrised search: generated families whose refinement depth grows linearly with size are driven past the first sizes where recursion, quadratic blow-ups or empty-sequence corner cases would break (depth > 1000, thousands of atoms, thousands of components, K_n, single atoms), checking that all three pipeline stages return, agree on atom/bond counts, emit a string that passes the C05 layout validator (4-digit indices), leave an equitable partition, and - for light cases - can be repeated on the same objects and reach a fixed point. Liveness is only observed up to a wall budget (timeout = inconclusive).",
    "note": "Sizes are bounded by the tier budgets (quick: n up to ~2300 / 3000 components; thorough: up to ~6000).",
    "technique": "property-based testing over size-parametrised molecule families (Hypothesis, 16 shards: 12 heavy, 4 light)",
}
ASSUMPTIONS = ["a case that exceeds the per-case wall budget is inconclusive"]

SHRINK_BUDGET = 40.0
MAX_ROUNDS = 1

HEAVY = ["path", "path_label", "ring_label", "ladder", "comb", "polyethylene", "peptide", "caterpillar", "diatomics", "isolated", "star", "tree"]
LIGHT = HEAVY + ["complete", "single", "core_leaves"]


def budget(tier):
    return {"examples": 2, "shards": 16, "wall": 400 if tier == "quick" else 6000}


def examples_for_shard(tier, k):
    if k < 12:
        return 2 if tier == "quick" else 6
    return 60 if tier == "quick" else 600


@st.composite
def heavy(draw, tier, k):
    fams = HEAVY[k % len(HEAVY):] + HEAVY[: k % len(HEAVY)]
    fam = draw(st.sampled_from(fams))
    if tier == "quick":
        depth = draw(st.integers(1001, 1100))
    else:
        depth = draw(st.one_of(st.integers(1001, 1400), st.integers(1400, 3000)))
    return {"family": fam, "depth": depth, "seed": draw(st.integers(0, 2**31)), "heavy": True}


@st.composite
def light(draw, tier):
    fam = draw(st.sampled_from(LIGHT))
    depth = draw(gens.boundary_ints(1, 100 if tier == "quick" else 300))
    return {"family": fam, "depth": depth, "seed": draw(st.integers(0, 2**31)), "heavy": False}


def strategy_for_shard(tier, k):
    return heavy(tier, k) if k < 12 else light(tier)


def strategy(tier):
    return light(tier)


def construct(case):
    """(family, depth) -> Mol; `depth` is the targeted number of refinement rounds for the
    chain-like families and a size parameter otherwise."""
    import random

    fam, d, rnd = case["family"], case["depth"], random.Random(case["seed"])
    heavy_ = case.get("heavy")
    zs, edges, masses = [], [], {}
    if fam == "single":
        zs = [rnd.choice([1, 6, 26, 118])]
    elif fam in ("path", "path_label"):
        n = 2 * d + rnd.randint(0, 1)
        zs = [6] * n
        edges = [(i, i + 1) for i in range(n - 1)]
        if fam == "path_label":
            masses[rnd.choice([0, n - 1, n // 2])] = 13
    elif fam == "ring_label":
        n = max(3, 2 * d)
        zs = [6] * n
        edges = [(i, (i + 1) % n) for i in range(n)]
        masses[0] = 14
    elif fam == "ladder":
        k = max(2, d)
        zs = [6] * (2 * k)
        edges = [(i, i + 1) for i in range(k - 1)] + [(k + i, k + i + 1) for i in range(k - 1)] + [(i, k + i) for i in range(k)]
        zs[0] = 7
    elif fam == "comb":
        k = max(2, d)
        zs = [6] * k + [8] * k
        edges = [(i, i + 1) for i in range(k - 1)] + [(i, k + i) for i in range(k)]
        zs[0] = 7
    elif fam == "caterpillar":
        k = max(2, 2 * d)
        zs = [6] * k
        edges = [(i, i + 1) for i in range(k - 1)]
        for i in range(k):
            if rnd.random() < 0.05:
                zs.append(9)
                edges.append((i, len(zs) - 1))
    elif fam == "polyethylene":
        k = max(2, (2 * d) // 3 if heavy_ else d)
        zs = [6] * k
        edges = [(i, i + 1) for i in range(k - 1)]
        for i in range(k):
            for _ in range(2):
                zs.append(1)
                edges.append((i, len(zs) - 1))
        zs.append(1)
        edges.append((0, len(zs) - 1))
    elif fam == "peptide":
        units = max(1, (2 * d) // 6 if heavy_ else d)
        prev = None
        for u in range(units):
            base = len(zs)
            zs += [7, 6, 6, 8]  # N, CA, C, O
            edges += [(base, base + 1), (base + 1, base + 2), (base + 2, base + 3)]
            if prev is not None:
                edges.append((prev, base))
            prev = base + 2
            zs.append(1)
            edges.append((base, len(zs) - 1))
        zs.append(8)
        edges.append((prev, len(zs) - 1))
    elif fam == "star":
        n = 2 * d + 1 if heavy_ else d
        zs = [14] + [1] * n
        edges = [(0, i + 1) for i in range(n)]
    elif fam == "isolated":
        n = (2 * d + 400) if heavy_ else d
        zs = [rnd.choice([2, 10, 18])] * n if rnd.random() < 0.5 else [rnd.choice([2, 10, 18, 36]) for _ in range(n)]
    elif fam == "diatomics":
        k = (d + 200) if heavy_ else d
        zs = [1, 17] * k
        edges = [(2 * i, 2 * i + 1) for i in range(k)]
    elif fam == "complete":
        n = min(d, 60)
        zs = [6] * n
        edges = [(i, j) for i in range(n) for j in range(i + 1, n)]
    elif fam == "core_leaves":
        k = max(3, min(d, 40))
        zs = [79] * k + [17] * k
        edges = [(i, j) for i in range(k) for j in range(i + 1, k)] + [(i, k + i) for i in range(k)]
    elif fam == "tree":
        n = 2 * d if heavy_ else d
        zs = [6] * n
        edges = [(rnd.randint(max(0, i - 3), i - 1), i) for i in range(1, n)]
    else:
        raise ValueError(fam)
    atoms = [[zs[i], masses.get(i, 0), 0, 0, float(i), 0.0, 0.0] for i in range(len(zs))]
    return Mol(atoms, [[a, b, 1] for a, b in edges], "big:" + fam)


class _Timeout(Exception):
    pass


def _alarm(signum, frame):
    raise _Timeout()


def check(case, stats):
    mol = construct(case)
    n, m = mol.n, mol.m
    g = mol_to_graph(mol)
    limit = 600
    old = signal.signal(signal.SIGALRM, _alarm)
    signal.alarm(limit)
    try:
        with default_recursion():
            c = call("canonicalize", canonicalize_molecule, g)
            s = call("serialize", serialize_molecule, c)
            back = call("parse", graph_from_tucan, s)
    except _Timeout:
        stats.label("inconclusive_timeout")
        return
    finally:
        signal.alarm(0)
        signal.signal(signal.SIGALRM, old)
    stats.evaluated()
    if back.number_of_nodes() != n or back.number_of_edges() != m:
        raise Violation("counts", f"{case['family']} n={n}: parse-back has {back.number_of_nodes()} atoms / {back.number_of_edges()} bonds, expected {n} / {m}")
    # C05's layout rules on big outputs (4-digit indices, counts >= 1000), linear cost
    from ..validator import LayoutError, validate

    try:
        validate(s, mol)
    except LayoutError as e:
        raise Violation("layout-on-big-output:" + e.rule, f"{case['family']} n={n}: {e.msg}; string starts {s[:80]!r}") from None
    # fixed point where it is affordable (light cases)
    if not case.get("heavy") and n <= 400:
        with default_recursion():
            s2 = call("serialize", serialize_molecule, call("canonicalize", canonicalize_molecule, back))
        if s2 != s:
            raise Violation("fixed-point-on-family", f"{case['family']} n={n}: tucan(parse(s)) != s")
        # the same objects again: serializing the canonical graph a second time, and
        # canonicalizing the canonical graph, must complete as well
        with default_recursion():
            s3 = call("serialize-again", serialize_molecule, c)
            s4 = call("serialize(recanonicalized)", serialize_molecule, call("canonicalize-again", canonicalize_molecule, c))
        if s3 != s or s4 != s:
            raise Violation("repeat-on-same-object", f"{case['family']} n={n}: repeating serialize / canonicalize on the same object gives a different string")
    # C13 clause (ii) on deep inputs, at no extra pipeline cost
    cls = [None] * n
    for v, d in c.nodes(data=True):
        cls[int(d[GA.X_COORD])] = d[GA.PARTITION]
    check_equitable(mol, cls, "equitable-on-deep-input")
    stats.label("family:" + case["family"])
    stats.maximum("max_atoms", n)
    comps = mol.n_components()
    stats.maximum("max_components", comps)
    rounds = 0
    if n >= 1500 and case["family"] not in ("isolated", "diatomics", "star", "tree"):
        _, rounds = mol.wl(max_rounds=1000)
        stats.maximum("max_refinement_rounds_measured(cap 1000)", rounds)
    if rounds >= 1000 or n >= 2000 or comps >= 1000:
        stats.mark_nontrivial(case_digest([case["family"], case["depth"], case["seed"]]), {"family": case["family"], "n": n, "m": m, "components": comps, "string_prefix": s[:60]})
