"""C01 - the TUCAN string is invariant under atom/bond reordering (metamorphic)."""

from __future__ import annotations

import itertools

from hypothesis import strategies as st

from .. import gens
from ..lib import Violation, call, graph_from_molfile_text, mol_to_graph, pipeline
from ..mol import Mol, case_digest
from ..render import render_v3000, render_v2000

ID = "C01"
RULE = (
    "case = abstract molecule (families er/skeleton/wlhard/chem/deep/corpus) x k listing "
    "transformations (atom permutation pi, atom listing order, bond listing order, endpoint "
    "flips, file index map), via the graph constructor or own V3000/V2000 renderings, plus all "
    "n! relabelings when n<=6; oracle: byte-equal pipeline strings. Non-trivial = n>=2 and at "
    "Additionally (finite sweeps): all coloured graphs with n<=4 (quick) / n<=5 (thorough) atoms over 4 colours under ALL n! relabelings, and all 117 pairs of neighbouring elements described via constructor and via an own TUCAN spelling. "
    "Non-trivial: at least one transformed description differs from the base description (pi is not a "
    "colour-preserving automorphism fixing the listing, or listing orders differ); distinct by "
    "digest of (molecule, transformations)."
)
MANIFEST = {
    "text": "Metamorphic search: each generated molecule is described several times (permuted atoms, shuffled atom/bond listing, flipped endpoints, arbitrary file indices; via the graph constructor - also with labels that differ from iteration positions, re-fed canonical output, and attribute dicts reused from a parent graph - and via independently rendered V3000/V2000 files) and all descriptions must give byte-identical strings; all n! relabelings for n<=6. Strong at finding label/order dependence incl. symmetric, WL-hard, multi-component and partially labelled molecules; it cannot prove invariance.",
    "note": "Trusted: the abstract model's permute(); own renderers (cross-checked by C07/C08). bliss is exercised, not verified.",
    "technique": "property-based testing: metamorphic relation over generated molecules x relabelings (Hypothesis, 16 shards; all n! relabelings for n<=6) + finite sweeps: all coloured graphs n<=4/5 under all n! relabelings, all 117 neighbouring element pairs across formats",
}
ASSUMPTIONS = [
    "own renderers produce spec-conformant molfiles (validated against the reader model in C07/C08)",
    "search, not proof; bliss is exercised, not verified",
]


def budget(tier):
    return {"examples": 220 if tier == "quick" else 6000, "shards": 16, "wall": 150 if tier == "quick" else 3000}


@st.composite
def strategy_(draw, tier):
    mol = draw(st.one_of(gens.mols(tier), gens.mols(tier), gens.mols(tier), gens.mols(tier, wide=True)))
    n, m = len(mol["atoms"]), len(mol["bonds"])
    k = 3 if tier == "quick" else 6
    if n > 150:
        k = 2
    tfs = [draw(gens.listing(n, m)) for _ in range(k)]
    route = draw(st.sampled_from(["graph", "graph", "graph", "v3000", "v2000", "tucan", "mixed"]))
    return {"mol": mol, "tfs": tfs, "route": route, "style_seed": draw(st.integers(0, 1000))}


def strategy(tier):
    return strategy_(tier)


def molfile_ok(mol, route):
    if route in ("graph", "tucan"):
        return True
    for z, mass, rad, chg, *_ in mol.atoms:
        if not (0 <= mass <= 999 and 0 <= rad <= 3 and -15 <= chg <= 15):
            return False
    if route == "v2000":
        if mol.n > 999 or mol.m > 999 or any(not (1 <= t <= 9) for _, _, t in mol.bonds):
            return False
    return True


def route_for(route, k, mol):
    """`mixed`: the base description goes through the graph constructor, the k-th transformed
    description through another format in turn (string, V3000, V2000, constructor)."""
    if route != "mixed":
        return route
    if k < 0:
        return "graph"
    r = ["tucan", "v3000", "v2000", "graph"][k % 4]
    return r if molfile_ok(mol, r) else "tucan"


def describe(mol, listing, route, style_seed):
    """Build the library graph for one description of the molecule."""
    if route == "graph":
        g = mol_to_graph(mol, listing["order"], [k - 1 for k in listing["keys"]], listing["bond_order"], listing["flips"])
        return post_process(g, listing)
    if route == "tucan":
        # the molecule written down in the published string format by own code (not canonical)
        from ..lib import graph_from_tucan
        from ..sentences import mol_to_sentence

        return call("parse(description)", graph_from_tucan, mol_to_sentence(mol, listing["order"], listing["bond_order"], listing["flips"]))
    if route == "v3000":
        text = render_v3000(mol, listing, {"seed": style_seed})
    else:
        text = render_v2000(mol, listing, {"seed": style_seed, "chg_by": "mline"})
    return call("read_molfile", graph_from_molfile_text, text)


def post_process(g, listing):
    """Descriptions whose node labels differ from their iteration positions (any networkx
    graph is a legitimate argument of the pipeline): relabelled keeping the iteration
    order, or the output of a first canonicalization."""
    import networkx as nx

    from ..lib import canonicalize_molecule

    post = listing.get("post", "none")
    if post == "relabel":
        nodes = list(g.nodes)
        pi = listing["pi"] if len(listing.get("pi", [])) == len(nodes) else list(range(len(nodes)))
        return nx.relabel_nodes(g, {v: pi[k] for k, v in enumerate(nodes)}, copy=True)
    if post == "recanon":
        return call("canonicalize(description)", canonicalize_molecule, g)
    if post == "reuse":
        # derive the molecule from the attribute dicts of an already built graph of its
        # unlabelled parent (the dicts then carry the parent's derived entries), add the isotope
        # / radical labels, and build the graph again through the public constructor
        from ..lib import GA, graph_from_molecule

        parent_attrs = {v: {k: x for k, x in d.items() if k not in (GA.MASS, GA.RAD, GA.INVARIANT_CODE)} for v, d in g.nodes(data=True)}
        bonds = {(a, b): dict(d) for a, b, d in g.edges(data=True)}
        parent = call("graph_from_molecule(parent)", graph_from_molecule, parent_attrs, bonds)
        atom_attrs = {v: dict(d) for v, d in parent.nodes(data=True)}
        for (v, d), (_, d0) in zip(atom_attrs.items(), g.nodes(data=True)):
            for key in (GA.MASS, GA.RAD):
                if d0.get(key):
                    d[key] = d0[key]
        bonds2 = {(a, b): dict(d) for a, b, d in parent.edges(data=True)}
        return call("graph_from_molecule(derived)", graph_from_molecule, atom_attrs, bonds2)
    return g


def check(case, stats):
    mol = Mol.from_json(case["mol"])
    n = mol.n
    route = case["route"] if (case["route"] == "mixed" or molfile_ok(mol, case["route"])) else "graph"
    ident = {"order": list(range(n)), "keys": list(range(1, n + 1)), "bond_order": list(range(mol.m)), "flips": [False] * mol.m}
    base = pipeline(describe(mol, ident, route_for(route, -1, mol), case["style_seed"]), "base")
    stats.evaluated()
    base_id = (mol.atoms, mol.bonds)
    differs = False
    for k, tf in enumerate(case["tfs"]):
        pm = mol.permute(tf["pi"])
        g = describe(pm, tf, route_for(route, k, mol), case["style_seed"])
        s = pipeline(g, "permuted")
        stats.evaluated()
        listing_trivial = tf["order"] == ident["order"] and tf["bond_order"] == ident["bond_order"] and not any(tf["flips"])
        if ([a[:3] for a in pm.atoms], sorted(sorted(b[:2]) for b in pm.bonds)) != (
            [a[:3] for a in mol.atoms], sorted(sorted(b[:2]) for b in mol.bonds)) or not listing_trivial:
            differs = True
        if route == "graph":
            stats.label("post:" + tf.get("post", "none"))
        if s != base:
            raise Violation("string-invariance", f"route={route} post={tf.get('post', 'none')}: {base!r} != {s!r} (transformation #{k})",
                            base=base, other=s, route=route)
    if n <= 6 and n >= 2:
        # all n! relabelings, exhaustively (graph route)
        for pi in itertools.permutations(range(n)):
            pm = mol.permute(list(pi))
            s = pipeline(mol_to_graph(pm), "permuted-exhaustive")
            stats.evaluated()
            if s != base:
                raise Violation("string-invariance", f"exhaustive relabeling pi={list(pi)}: {base!r} != {s!r}",
                                base=base, other=s, pi=list(pi))
        stats.label("exhaustive_n_factorial")
    # classification
    fam = mol.family.split(":")[0]
    stats.label("family:" + fam)
    stats.label("route:" + route)
    stats.maximum("max_atoms", n)
    if n >= 2 and differs:
        cls, rounds = mol.wl()
        symmetric = len(set(cls)) < n
        labelled = any(a[1] or a[2] for a in mol.atoms)
        if symmetric:
            stats.label("wl_partition_not_discrete")
        if symmetric and labelled:
            stats.label("symmetric_and_labelled")
        if mol.n_components() > 1:
            stats.label("multi_component")
        if fam == "wlhard":
            stats.label("wlhard")
        stats.maximum("max_wl_rounds", rounds)
        stats.mark_nontrivial(case_digest(case), {"mol": mol.brief(), "route": route, "string": base[:200], "pi": case["tfs"][0]["pi"][:24]})


def extra(ctx):
    """Finite sweep over the periodic table: for every pair of neighbouring elements (Z, Z+1)
    a small asymmetric molecule X(Y)2 / Y(X)2 is described once through the graph constructor
    (atomic numbers from the own table) and once as a TUCAN string written by own code
    (blocks of increasing Z by the own table); both descriptions must agree.  A transposition
    in an element table shows only when both elements occur together."""
    from ..lib import Violation as V
    from ..runner import Stats, bucket_of

    stats = Stats()
    failures = []
    n_cases = 0
    for z in range(1, 118):
        for centre, outer in ((z, z + 1), (z + 1, z)):
            mol = Mol.simple([centre, outer, outer], [(0, 1), (0, 2)], masses=[0, 0, 0], family="element-pair").to_json()
            tf = {"pi": [0, 1, 2], "order": [0, 1, 2], "bond_order": [0, 1], "flips": [False, False], "keys": [1, 2, 3], "post": "none"}
            case = {"mol": mol, "tfs": [tf, dict(tf, pi=[2, 0, 1], order=[1, 2, 0])], "route": "mixed", "style_seed": 0}
            n_cases += 1
            try:
                check(case, stats)
            except V as e:
                if len(failures) < 3:
                    failures.append({"sub": e.sub, "message": e.msg, "details": {}, "case": case, "bucket": list(bucket_of(e))})
    stats.label("element_pair_sweep_cases", n_cases)
    # small-scope exhaustive sweep: every coloured graph up to isomorphism below the bound, under
    # ALL n! relabelings
    from .. import smallscope

    nmax, ncol = (4, 4) if ctx["tier"] == "quick" else (5, 4)
    classes, evals, fails = smallscope.sweep(__name__, "smallscope_fn", nmax, ncol)
    failures.extend(fails)
    stats.evaluated(evals)
    stats.label("smallscope_classes", classes)
    return {"failures": failures, "stats": stats.dump(),
            "info": {"element_pairs_swept": 117, "smallscope": f"all {classes} coloured graphs with n<={nmax} over {ncol} colours (C, 13C, O, C-radical) under all n! relabelings"}}


def smallscope_fn(mol):
    base = pipeline(mol_to_graph(mol), "smallscope-base")
    k = 1
    for pi in itertools.permutations(range(mol.n)):
        s = pipeline(mol_to_graph(mol.permute(list(pi))), "smallscope-permuted")
        k += 1
        if s != base:
            raise Violation("string-invariance", f"small scope: {mol.brief()} relabelled by {list(pi)}: {base!r} != {s!r}")
    return k


def replay_extra(rec, stats):
    if "smallscope" in rec["case"]:
        smallscope_fn(Mol.from_json(rec["case"]["smallscope"]))
    else:
        check(rec["case"], stats)
