"""C14 - results are deterministic across processes, call histories and threads."""

from __future__ import annotations

import atexit
import json
import os
import subprocess
import sys

from hypothesis import strategies as st

from .. import gens, sentences as sn, styles
from ..lib import REPO, Violation
from ..mol import Mol, case_digest
from ..render import render_v2000, render_v3000
from ..runner import ROOT

ID = "C14"
RULE = (
    "case = a history of up to 14 operations with inline inputs (read V3000/V2000 text, "
    "canonicalize, pipeline, parse valid and INVALID strings, read DAMAGED molfiles (cut short, "
    "dangling continuation dash, wrong counts, missing M  END), normalise a string, write a molfile (also with recalculated coordinates), "
    "permute_molecule(seed), consume the global random generator, 'run the next k operations in k "
    "threads at once' under a 1 microsecond switch interval); execution: three persistent server "
    "interpreters per shard with distinct PYTHONHASHSEED (0 plus two derived from VERIF_SEED and "
    "the shard), each forking a child with a cold ANTLR cache per history; the history is run as "
    "drawn, reversed, and each op of a sample alone; oracle: every (operation, input) has one "
    "result whatever the hash seed, position, preceding (failed) parses, or thread: strings "
    "byte-equal, graphs equal in node order/attributes/edge set, molfiles equal with the 10 "
    "timestamp digits masked, exceptions equal by type. Non-trivial = an input compared under >=2 "
    "hash seeds and >=2 history positions with a rejected input (string or molfile) before it in at least one; distinct "
    "by case digest."
)
MANIFEST = {
    "text": "Differential search over configurations and call histories: the same operation on the same input is observed in several interpreters with different hash seeds, at different positions of generated histories (including after rejected TUCAN strings that leave the shared ANTLR prediction cache partially built, and after damaged molfiles that the readers reject half-way), alone in a cold process, and inside concurrent sections; all observations must agree. The thread part is stress (the harness does not own CPython's schedule) and can only refute.",
    "note": "CPython gives the harness no control over thread interleavings: concurrent sections are stress under a 1 us switch interval, not schedule enumeration. Timeouts are inconclusive.",
    "technique": "property-based differential testing over generated call histories x hash seeds x threads (Hypothesis histories, forked cold children in persistent server interpreters)",
}
ASSUMPTIONS = ["thread schedules are sampled, not enumerated", "only the 10 timestamp digits of header line 2 may differ"]
SHRINK_BUDGET = 60.0


def budget(tier):
    return {"examples": 45 if tier == "quick" else 1500, "shards": 16, "wall": 200 if tier == "quick" else 4000}


_TIER = {"t": "quick"}


@st.composite
def molfile_text(draw, big=False):
    if big and _TIER["t"] == "thorough":
        mol = draw(gens.fam_er(160))  # past any size threshold of the layout code (n up to 160)
    else:
        mol = draw(gens.mols("quick", families=("er", "chem", "skeleton")))
    m = Mol.from_json(mol)
    m = Mol([[a[0], min(a[1], 999), min(a[2], 3), max(-15, min(15, a[3])), a[4], a[5], a[6]] for a in m.atoms], [[i, j, min(max(t, 1), 9)] for i, j, t in m.bonds])
    if draw(st.booleans()) or m.n > 999:
        return render_v3000(m, None, draw(styles.v3000_styles()))
    return render_v2000(m, None, draw(styles.v2000_styles()))


@st.composite
def damaged_molfile(draw):
    """A molfile the readers must reject or at least handle identically every time: cut
    short, a continuation dash before a non-continuation line, wrong counts, lost M  END."""
    text = draw(molfile_text())
    lines = text.replace("\r\n", "\n").replace("\r", "\n").split("\n")
    how = draw(st.sampled_from(["truncate", "dangling_dash", "counts", "no_end", "drop_line", "dup_line"]))
    k = draw(st.integers(0, max(0, len(lines) - 1)))
    if how == "truncate":
        lines = lines[: max(4, k)]
    elif how == "dangling_dash":
        j = min(len(lines) - 1, max(4, k))
        lines[j] = lines[j] + " -"
        lines.insert(j + 1, "junk line that does not continue")
    elif how == "counts":
        for j, ln in enumerate(lines):
            if "COUNTS" in ln:
                lines[j] = ln.replace("COUNTS ", "COUNTS 9")
            elif ln.endswith("V2000"):
                lines[j] = " 99" + ln[3:]
    elif how == "no_end":
        lines = [ln for ln in lines if ln != "M  END"]
    elif how == "drop_line":
        if len(lines) > 5:
            del lines[max(4, k) % len(lines)]
    else:
        j = max(4, k) % len(lines)
        lines.insert(j, lines[j])
    return "\n".join(lines)


@st.composite
def op(draw):
    kind = draw(st.sampled_from(["read", "pipeline", "canon", "parse", "parse_bad", "norm", "write", "permute", "random", "threads", "parse_bad", "pipeline", "read_bad", "read_bad"]))
    if kind == "read_bad":
        return ["read", draw(damaged_molfile())]
    if kind in ("read", "pipeline", "canon", "write"):
        if kind == "write" and draw(st.integers(0, 3)) == 0:
            # the optional layout path of the writer (coordinates recalculated)
            return ["write_calc", draw(molfile_text(big=draw(st.integers(0, 3)) == 0))]
        return [kind, draw(molfile_text())]
    if kind == "permute":
        return [kind, draw(molfile_text()), draw(st.sampled_from([0.0, 0.42, 0.5, 0.123456789]))]
    if kind == "parse":
        return ["parse", sn.spell(draw(sn.structures(max_atoms=40, max_tuples=12)))]
    if kind == "norm":
        return ["norm", sn.spell(draw(sn.structures(max_atoms=40, max_tuples=12, allow_empty=False)))]
    if kind == "parse_bad":
        return ["parse", draw(st.one_of(sn.edited(), sn.boundary()))]
    if kind == "random":
        return ["random", draw(st.integers(1, 5))]
    return ["threads", draw(st.integers(2, 6))]


@st.composite
def strategy_(draw, tier):
    ops = draw(st.lists(op(), min_size=2, max_size=14))
    # repeat some inputs at other positions so that history-dependence can show
    reps = draw(st.lists(st.integers(0, len(ops) - 1), max_size=4))
    for r in reps:
        if ops[r][0] not in ("threads", "random"):
            ops.insert(draw(st.integers(0, len(ops))), list(ops[r]))
    return {"ops": ops, "solo": draw(st.lists(st.integers(0, 40), max_size=2))}


def strategy(tier):
    _TIER["t"] = tier
    return strategy_(tier)


_SERVERS = {}


def _server(hashseed):
    p = _SERVERS.get(hashseed)
    if p is None or p.poll() is not None:
        env = dict(os.environ)
        env["PYTHONHASHSEED"] = str(hashseed)
        env["VERIF_REPO"] = REPO
        env["PYTHONDONTWRITEBYTECODE"] = "1"
        p = subprocess.Popen([sys.executable, "-m", "vlib.c14_worker"], cwd=ROOT, env=env, stdin=subprocess.PIPE, stdout=subprocess.PIPE, text=True, bufsize=1)
        _SERVERS[hashseed] = p
    return p


def _shutdown():
    for p in _SERVERS.values():
        try:
            p.stdin.close()
            p.terminate()
        except Exception:  # noqa: BLE001
            pass


atexit.register(_shutdown)


def hashseeds():
    base = int(os.environ.get("VERIF_SEED", "1"))
    k = int(os.environ.get("VERIF_SHARD", "0"))  # shard index: a pure function of the run's seed
    return [0, 1 + (base * 7919 + k * 31) % 4000000000, 1 + (base * 104729 + k * 17 + 4242) % 4000000000]


def run_on(hashseed, ops):
    p = _server(hashseed)
    p.stdin.write(json.dumps({"ops": ops}) + "\n")
    p.stdin.flush()
    line = p.stdout.readline()
    if not line:
        from ..iso import HarnessError

        raise HarnessError("C14 server interpreter died")
    res = json.loads(line)
    if not res.get("ok"):
        from ..iso import HarnessError

        raise HarnessError("C14 child failed: " + str(res.get("error")))
    return res["results"]


def check(case, stats):
    ops = case["ops"]
    seeds = hashseeds()
    rev = list(reversed(ops))
    # a 'threads' op must precede its section: in the reversed history sections differ, fine
    runs = [(seeds[0], ops, "as drawn"), (seeds[1], ops, "as drawn"), (seeds[2], rev, "reversed"), (seeds[0], rev, "reversed")]
    solo_idx = [i % len(ops) for i in case.get("solo", [])]
    for i in solo_idx:
        if ops[i][0] not in ("threads", "random"):
            runs.append((seeds[2], [ops[i]], "alone in a cold process"))
    seen = {}
    for hs, hist, how in runs:
        results = run_on(hs, hist)
        stats.evaluated()
        failed_before = False
        for pos, (o, r) in enumerate(zip(hist, results)):
            if o[0] in ("threads", "random") or r is None:
                continue
            key = json.dumps(o, sort_keys=True)
            val = json.dumps(r["value"], sort_keys=True)
            ctx = {"hashseed": hs, "position": pos, "history": how, "in_thread": r["thread"], "failed_parse_before": failed_before}
            if key in seen:
                if seen[key][0] != val:
                    raise Violation("nondeterministic-result", f"operation {o[0]} on input {str(o[1])[:120]!r} returned {seen[key][0][:160]} in context {seen[key][1][0]} but {val[:160]} in context {ctx}")
                seen[key][1].append(ctx)
            else:
                seen[key] = (val, [ctx])
            if o[0] in ("parse", "read") and isinstance(r["value"], dict) and "exception" in r["value"]:
                failed_before = True
                stats.label("rejected_" + o[0])
    nt = False
    for key, (val, ctxs) in seen.items():
        if len({c["hashseed"] for c in ctxs}) >= 2 and len({(c["history"], c["position"]) for c in ctxs}) >= 2 and any(c["failed_parse_before"] for c in ctxs):
            nt = True
        if any(c["in_thread"] for c in ctxs):
            stats.label("results_from_concurrent_sections")
        stats.label("compared_inputs")
    stats.label("histories")
    stats.maximum("max_history_len", len(ops))
    if nt:
        stats.mark_nontrivial(case_digest(case), {"ops": [[o[0], (o[1][:60] if isinstance(o[1], str) else o[1])] for o in ops][:10], "hashseeds": seeds})
