"""C09 - written molfiles read back as the same molecule, at any line length (round-trip)."""

from __future__ import annotations

import re

from hypothesis import strategies as st

from .. import gens
from .. import refgrammar as rg
from ..lib import GA, Violation, call, canonicalize_molecule, graph_from_molfile_text, graph_from_tucan, graph_to_molfile, mol_to_graph, pipeline
from ..mol import Mol, case_digest
from ..ptable import SYM_OF
from ..render import render_v3000

ID = "C09"
RULE = (
    "case = graph from five producers (constructor, reader, parser, canonicalize_molecule output "
    "whose labels differ from iteration position, sparse relabelling) with in-range attributes "
    "(|chg|<=15 non-zero, rad 1..3, mass>0 up to 1e18, any finite coordinates incl. 1e300, "
    "subnormals, -0.0, bond types up to 150 digits so bond lines wrap, up to 1200 atoms for "
    "4-digit indices) and LENGTH TARGETING: coordinate digit counts solved so that a line's "
    "content length hits 70..74 / 141..145 / 212..216; oracle: every written line <= 79 chars, "
    "lines 5.. parse with own per-line regexes after own continuation splice and state exactly "
    "the graph (independent of the library reader), COUNTS matches, bond block present iff bonds; "
    "library read-back gives node k = k-th node of the argument with equal symbol/chg/rad/mass, "
    "coordinates == float(f'{x:.6f}'), bonds with equal types (absent == 1); for canonical strings "
    "tucan(read(write(parse(s)))) == s. Non-trivial = >=1 wrapped line; distinct by case digest."
)
MANIFEST = {
    "text": "Round-trip search with length targeting: graphs whose atom or bond lines land on and around every wrap boundary (71/72/73, 142..145, several wraps, wrap before/after a blank, inside MASS=, inside a number) are written, the text is checked against an own V3000 line grammar and re-read both by own code and by the library reader, and compared with the argument graph; canonical strings must survive string -> graph -> molfile -> graph -> string. In part of the cases the reader is first offered (and rejects) a damaged copy of the written file, so state leaking out of a failed read shows.",
    "note": "Trusted: the harness' own splice + per-line regexes. Timestamp line is not compared.",
    "technique": "property-based round-trip testing with boundary-targeted line lengths (Hypothesis, 16 shards)",
}
FUZZ = {"procs": 12, "runs": 10000, "timeout": 1500}
ASSUMPTIONS = ["attributes outside the format's ranges (|chg|>15, rad>3) are outside the domain"]


def budget(tier):
    return {"examples": 300 if tier == "quick" else 10000, "shards": 16, "wall": 150 if tier == "quick" else 3000}


SPECIAL_FLOATS = [0.0, -0.0, 1.0, -1.0, 0.5, 1e-7, 5e-324, 2.2250738585072014e-308, 1e15, 1e16, 1e22, 1e23, 1e100, -1e100, 1e300, 1.7976931348623157e308, 123456.7890125, 0.0000005, 0.9999995]


@st.composite
def strategy_(draw, tier):
    big = draw(st.integers(0, 39)) == 7
    if big:
        n = draw(st.sampled_from([999, 1000, 1001, 1200]))
        mol = {"atoms": [[6, 0, 0, 0, float(i), 0.0, 0.0] for i in range(n)], "bonds": [[i, i + 1, 1] for i in range(n - 1)], "family": "chain"}
    else:
        mol = draw(gens.mols(tier, families=("er", "skeleton", "chem", "er")))
    n, m = len(mol["atoms"]), len(mol["bonds"])
    producer = draw(st.sampled_from(["constructor", "constructor", "reader", "parser", "canonical", "relabelled"]))
    target = draw(st.sampled_from([None, 70, 71, 72, 73, 74, 141, 142, 143, 144, 145, 212, 213, 214, 215, 216, 283, 284, 285]))
    k = min(n, 12)
    deco = []
    for _ in range(k):
        deco.append({
            "chg": draw(st.sampled_from([0, 0, 1, -1, 15, -15, 7, -3])),
            "rad": draw(st.sampled_from([0, 0, 1, 2, 3])),
            "mass": draw(st.sampled_from([0, 0, 1, 2, 13, 235, 999, 1000, 10**9, 10**18])),
            "xyz": [draw(st.one_of(st.sampled_from(SPECIAL_FLOATS), st.floats(allow_nan=False, allow_infinity=False), st.floats(-100, 100))) for _ in range(3)],
            "digits": draw(st.integers(1, 60)),
        })
    btypes = [draw(st.one_of(st.sampled_from([1, 2, 3, 4, 10, 10**20, 10**61, 10**62, 10**63, 10**64, 10**65, 10**66, 10**149]), st.integers(1, 12))) for _ in range(min(m, 8))]
    return {"mol": mol, "producer": producer, "order": draw(gens.perms(n)), "deco": deco, "btypes": btypes, "target": target,
            "target_atom": draw(st.integers(0, max(0, n - 1))),
            # history: a damaged copy of the written file is offered to the reader first (and
            # rejected); the read-back of the intact file must not be affected by it
            "poison": draw(st.sampled_from(["none", "none", "dangling_dash", "truncated", "bad_counts"])), "poison_line": draw(st.integers(0, 10**6))}


def strategy(tier):
    return strategy_(tier)


def build(case):
    import networkx as nx

    mol = Mol.from_json(case["mol"])
    n = mol.n
    prod = case["producer"]
    # identity data (mass, rad) goes into the abstract molecule BEFORE construction (the
    # constructor derives `invariant_code` from it); only non-identity data is edited afterwards
    atoms = [[a[0], a[1], min(a[2], 3), 0, a[4], a[5], a[6]] for a in mol.atoms]
    for k, d in enumerate(case["deco"]):
        if k < n:
            atoms[k][1], atoms[k][2] = d["mass"], d["rad"]
    base = Mol(atoms, [[i, j, 1] for i, j, _ in mol.bonds], mol.family)
    if prod == "reader":
        g = call("read", graph_from_molfile_text, render_v3000(base, {"order": case["order"], "keys": [i + 1 for i in range(n)]}, {"seed": 5}))
    elif prod == "parser":
        g = call("parse", graph_from_tucan, pipeline(mol_to_graph(base)))
    elif prod == "canonical":
        g = call("canonicalize", canonicalize_molecule, mol_to_graph(base, case["order"]))
    elif prod == "relabelled":
        g0 = mol_to_graph(base, case["order"])
        g = nx.relabel_nodes(g0, {v: 7 * case["order"][v] + 3 for v in g0.nodes}, copy=True)
    else:
        g = mol_to_graph(base, case["order"])
    nodes = list(g.nodes)
    for k, d in enumerate(case["deco"]):
        if k >= len(nodes):
            break
        nd = g.nodes[nodes[k]]
        if d["chg"]:
            nd[GA.CHG] = d["chg"]
        else:
            nd.pop(GA.CHG, None)
        nd[GA.X_COORD], nd[GA.Y_COORD], nd[GA.Z_COORD] = d["xyz"]
    for k, (a, b) in enumerate(list(g.edges)):
        if k < len(case["btypes"]):
            g.edges[a, b][GA.BOND_TYPE] = case["btypes"][k]
    # length targeting: solve the x coordinate's digit count so that the content hits the target
    if case["target"] and nodes:
        v = nodes[case["target_atom"] % len(nodes)]
        nd = g.nodes[v]
        nd[GA.X_COORD] = 1.0
        cur = len(atom_content(v, nd))
        need = case["target"] - cur
        if need > 0:
            nd[GA.X_COORD] = float(10 ** min(need, 300))
    return g


def atom_content(label, nd):
    x, y, z = nd.get(GA.X_COORD, 0), nd.get(GA.Y_COORD, 0), nd.get(GA.Z_COORD, 0)
    s = f"{label + 1} {nd[GA.ELEMENT_SYMBOL]} {x:.6f} {y:.6f} {z:.6f} 0"
    if nd.get(GA.CHG):
        s += f" CHG={nd[GA.CHG]}"
    if nd.get(GA.RAD):
        s += f" RAD={nd[GA.RAD]}"
    if nd.get(GA.MASS):
        s += f" MASS={nd[GA.MASS]}"
    return s


ATOM_RE = re.compile(r"^(\d+) ([A-Z][a-z]?) (-?\d+\.\d{6}) (-?\d+\.\d{6}) (-?\d+\.\d{6}) 0( CHG=-?\d+)?( RAD=\d+)?( MASS=\d+)?$")
BOND_RE = re.compile(r"^(\d+) (\d+) (\d+) (\d+)$")


def own_read(text):
    """Own splice + per-line grammar of the written V3000 body.  Returns (atoms, bonds, wraps)."""
    lines = text.split("\n")
    for k, ln in enumerate(lines):
        if len(ln) > 79:
            raise Violation("line-length", f"line {k+1} has {len(ln)} characters (> 79 + newline): {ln[:90]!r}")
    if len(lines) < 7 or not lines[3].endswith("V3000"):
        raise Violation("skeleton", "header / version line missing")
    body = lines[4:]
    if body[-1] != "M  END":
        raise Violation("skeleton", f"last line is {body[-1]!r}, not 'M  END'")
    logical = []
    wraps = []  # (n_chunks, [class per wrap])
    k = 0
    while k < len(body) - 1:
        ln = body[k]
        if not ln.startswith("M  V30 "):
            raise Violation("skeleton", f"line {ln[:40]!r} does not start with 'M  V30 '")
        content = ln[7:]
        chunks = 1
        classes = []
        # any `M  V30` line ending in a dash is continued (atom, bond and block lines never end
        # in a dash themselves), whatever width the writer chose to wrap at
        while content.endswith("-") and k + 1 < len(body) - 1:
            nxt = body[k + 1]
            if not nxt.startswith("M  V30 "):
                raise Violation("skeleton", "continuation line does not start with 'M  V30 '")
            before = content[-2] if len(content) >= 2 else ""
            after = nxt[7:8]
            classes.append("at-blank" if before == " " or after == " " else "in-token")
            content = content[:-1] + nxt[7:]
            k += 1
            ln = body[k]
            chunks += 1
        logical.append(content)
        if chunks > 1:
            wraps.append((chunks, classes))
        k += 1
    if logical[0] != "BEGIN CTAB" or logical[-1] != "END CTAB":
        raise Violation("skeleton", "BEGIN CTAB / END CTAB missing")
    m = re.match(r"^COUNTS (\d+) (\d+) 0 0 0$", logical[1])
    if not m:
        raise Violation("skeleton", f"bad counts line {logical[1]!r}")
    na, nb = int(m.group(1)), int(m.group(2))
    if logical[2] != "BEGIN ATOM" or logical[3 + na] != "END ATOM":
        raise Violation("skeleton", "atom block delimiters misplaced")
    atoms = []
    for c in logical[3 : 3 + na]:
        am = ATOM_RE.match(c)
        if not am:
            raise Violation("atom-line", f"atom line {c[:100]!r} does not match the V3000 atom line pattern")
        atoms.append({"idx": int(am.group(1)), "sym": am.group(2), "xyz": tuple(float(am.group(i)) for i in (3, 4, 5)),
                      "chg": int(am.group(6)[5:]) if am.group(6) else 0, "rad": int(am.group(7)[5:]) if am.group(7) else 0,
                      "mass": int(am.group(8)[6:]) if am.group(8) else 0})
    rest = logical[4 + na : -1]
    bonds = []
    if nb == 0:
        if rest:
            raise Violation("skeleton", f"no bonds but extra lines {rest[:2]}")
    else:
        if not rest or rest[0] != "BEGIN BOND" or rest[-1] != "END BOND" or len(rest) != nb + 2:
            raise Violation("skeleton", "bond block delimiters / count wrong")
        for k, c in enumerate(rest[1:-1]):
            bm = BOND_RE.match(c)
            if not bm:
                raise Violation("bond-line", f"bond line {c[:100]!r} does not match the V3000 bond line pattern")
            if int(bm.group(1)) != k + 1:
                raise Violation("bond-line", f"bond index {bm.group(1)} at position {k+1}")
            bonds.append((int(bm.group(2)), int(bm.group(3)), int(bm.group(4))))
    return atoms, bonds, wraps


def check(case, stats):
    g = build(case)
    nodes = list(g.nodes)
    n = len(nodes)
    text = call("write", graph_to_molfile, g)
    stats.evaluated()
    try:
        atoms, bonds, wraps = own_read(text)
    except IndexError:
        # the block structure is so damaged that the own line grammar runs off the end
        raise Violation("skeleton", "written file does not have the V3000 block structure (counts / BEGIN-END lines do not match the number of lines)") from None
    if len(atoms) != n or len(bonds) != g.number_of_edges():
        raise Violation("counts", f"file has {len(atoms)} atoms / {len(bonds)} bonds, graph {n} / {g.number_of_edges()}")
    if len({a["idx"] for a in atoms}) != n:
        raise Violation("indices", "atom indices in the file are not unique")
    want = []
    for k, v in enumerate(nodes):
        d = g.nodes[v]
        w = {"sym": d[GA.ELEMENT_SYMBOL], "chg": d.get(GA.CHG, 0) or 0, "rad": d.get(GA.RAD, 0) or 0, "mass": d.get(GA.MASS, 0) or 0,
             "xyz": tuple(float(f"{d.get(c, 0):.6f}") for c in (GA.X_COORD, GA.Y_COORD, GA.Z_COORD))}
        want.append(w)
        got = {x: atoms[k][x] for x in w}
        if got != w:
            raise Violation("file-content", f"atom line {k+1} states {got}, graph node {v} is {w}")
    idx_to_pos = {a["idx"]: k for k, a in enumerate(atoms)}
    pos_of = {v: k for k, v in enumerate(nodes)}
    want_b = {frozenset((pos_of[a], pos_of[b])): d.get(GA.BOND_TYPE, 1) for a, b, d in g.edges(data=True)}
    try:
        got_b = {frozenset((idx_to_pos[a], idx_to_pos[b])): t for t, a, b in bonds}
    except KeyError as e:
        raise Violation("file-content", f"bond refers to unknown atom index {e}") from None
    if got_b != want_b:
        raise Violation("file-content", "bonds stated in the file differ from the graph's bonds/types")
    # optional history: the reader first sees (and rejects) a damaged copy of the file
    poison = case.get("poison", "none")
    if poison != "none":
        lines = text.split("\n")
        j = 4 + case.get("poison_line", 0) % max(1, len(lines) - 5)
        if poison == "dangling_dash":
            bad = lines[:j] + [lines[j] + " -", "this line does not continue the previous one"] + lines[j + 1 :]
        elif poison == "truncated":
            bad = lines[:j]
        else:
            bad = [ln.replace("COUNTS ", "COUNTS 1") for ln in lines]
        try:
            graph_from_molfile_text("\n".join(bad))
            stats.label("poison_accepted")
        except Exception:  # noqa: BLE001 - whatever the reader does with damaged input is not judged here
            stats.label("poison_rejected")
    # library read-back
    r = call("read-back", graph_from_molfile_text, text)
    if list(r.nodes) != list(range(n)):
        raise Violation("read-back:nodes", f"read-back nodes {list(r.nodes)[:8]}")
    for k, w in enumerate(want):
        d = r.nodes[k]
        got = {"sym": d.get(GA.ELEMENT_SYMBOL), "chg": d.get(GA.CHG, 0) or 0, "rad": d.get(GA.RAD, 0) or 0, "mass": d.get(GA.MASS, 0) or 0,
               "xyz": (d.get(GA.X_COORD), d.get(GA.Y_COORD), d.get(GA.Z_COORD))}
        if got != w:
            raise Violation("read-back:atom", f"atom {k}: wrote {w}, read back {got}")
        if d.get(GA.ATOMIC_NUMBER) != g.nodes[nodes[k]].get(GA.ATOMIC_NUMBER):
            raise Violation("read-back:atom", f"atom {k}: atomic number changed")
    rb = {frozenset((a, b)): d.get(GA.BOND_TYPE) for a, b, d in r.edges(data=True)}
    if rb != want_b:
        raise Violation("read-back:bonds", f"bonds read back differ: {[(sorted(k), v) for k, v in want_b.items() if rb.get(k) != v][:3]}")
    # string -> graph -> molfile -> graph -> string
    if n > 300:
        stats.label("string_roundtrip_skipped_n>300")
        s = None
    else:
        s = pipeline(g, "pipeline-original")
        s2 = pipeline(r, "pipeline-readback")
        if s != s2:
            raise Violation("string-roundtrip", f"{s!r} became {s2!r} after write + read")
    if case["producer"] == "parser" and s is not None:
        gp = call("parse", graph_from_tucan, s)
        s3 = pipeline(call("read-back", graph_from_molfile_text, call("write", graph_to_molfile, gp)), "pipeline-roundtrip")
        if s3 != s:
            raise Violation("string-roundtrip", f"string -> graph -> molfile -> graph -> string: {s!r} became {s3!r}")
    stats.label("producer:" + case["producer"])
    stats.maximum("max_atoms", n)
    if wraps:
        for chunks, classes in wraps:
            stats.label("wrapped_lines")
            if chunks > 2:
                stats.label("multi_wrap")
            for c in classes:
                stats.label("wrap:" + c)
        stats.maximum("max_chunks", max(c for c, _ in wraps))
        stats.mark_nontrivial(case_digest(case), {"producer": case["producer"], "wrapped": [ln for ln in text.split("\n") if ln.endswith("-")][:3], "n": n})
