"""C02 - different molecules never share a TUCAN string (injectivity)."""

from __future__ import annotations

import multiprocessing as mp
import random

from hypothesis import strategies as st

from .. import gens, iso
from ..lib import Violation, mol_to_graph, pipeline
from ..mol import Mol, case_digest
from ..runner import Stats

ID = "C02"
RULE = (
    "(1) exhaustive sub-domain: every coloured graph up to isomorphism with n<=6 atoms over the "
    "colours {C, 13C, O} (quick; classes from own orbit enumeration, self-tested against the known "
    "graph counts 1,2,4,11,34,156), thorough adds 5 colours {C,13C,O,C-radical,N} for n<=5 and 4 "
    "colours for n=6, each class in a randomly drawn labelling: the map class -> string must be "
    "injective; (2) near-miss pairs: a generated molecule and a mutant of it (degree-preserving "
    "2-switch, label moved to another atom, two atoms' elements swapped, one CFI twist, catalogued "
    "SRG / cospectral pairs, mass<->rad exchanged); (3) a per-shard dictionary string -> first "
    "molecule fed by all molecules of (2). Oracle: equal strings imply colour-preserving "
    "isomorphism (own search with verified witness; VF2 cross-check n<=10). Non-trivial = a "
    "non-isomorphic pair agreeing in formula, degree sequence and 1-WL colour histogram, and every "
    "enumerated class once; distinct by digest."
)
MANIFEST = {
    "text": "Injectivity search in three layers (strings obtained through the graph constructor and through own V2000/V3000 renderings read by the library): complete enumeration of all small coloured graphs (every isomorphism class exactly once, so any collision is a real one), near-miss pairs constructed to defeat weak invariants (same formula, degrees and colour-refinement histogram), and a run-wide collision dictionary. Equal strings are only accepted with an explicit, verified isomorphism.",
    "note": "Completeness of the identifier is established exhaustively only below the enumeration bound; beyond it it is sampled. Trusted: own orbit enumeration (self-tested on known counts) and verify_mapping.",
    "technique": "finite-domain enumeration of all small coloured graphs + property-based near-miss pair generation (Hypothesis, 16 shards) against an independent isomorphism oracle",
}
ASSUMPTIONS = ["isomorphism search with exhausted budget counts as inconclusive"]

PALETTE3 = [(6, 0, 0), (6, 13, 0), (8, 0, 0)]
PALETTE5 = [(6, 0, 0), (6, 13, 0), (8, 0, 0), (6, 0, 2), (7, 0, 0)]


def budget(tier):
    return {"examples": 300 if tier == "quick" else 8000, "shards": 16, "wall": 150 if tier == "quick" else 3000}


def two_switch(mol, rnd):
    if mol.m < 2:
        return None
    es = mol.edge_set()
    for _ in range(20):
        (a, b, t1), (c, d, t2) = rnd.sample(mol.bonds, 2)
        if rnd.random() < 0.5:
            c, d = d, c
        if len({a, b, c, d}) < 4:
            continue
        if frozenset((a, d)) in es or frozenset((c, b)) in es:
            continue
        nb = [x for x in mol.bonds if frozenset(x[:2]) not in (frozenset((a, b)), frozenset((c, d)))]
        nb += [[a, d, 1], [c, b, 1]]
        return Mol(mol.atoms, nb, mol.family + "+2switch")
    return None


def mutate(mol, kind, rnd):
    n = mol.n
    if kind == "two_switch":
        return two_switch(mol, rnd)
    if kind == "move_label":
        lab = [i for i in range(n) if mol.atoms[i][1] or mol.atoms[i][2]]
        if not lab:
            return None
        i = rnd.choice(lab)
        cands = [j for j in range(n) if j != i and mol.atoms[j][0] == mol.atoms[i][0] and mol.atoms[j][1:3] != mol.atoms[i][1:3]]
        if not cands:
            return None
        j = rnd.choice(cands)
        m2 = mol.copy()
        m2.atoms[i][1:3], m2.atoms[j][1:3] = mol.atoms[j][1:3], mol.atoms[i][1:3]
        m2.family += "+move_label"
        return m2
    if kind == "swap_elements":
        pairs = [(i, j) for i in range(n) for j in range(i + 1, n) if mol.atoms[i][:3] != mol.atoms[j][:3]]
        if not pairs:
            return None
        i, j = rnd.choice(pairs)
        m2 = mol.copy()
        m2.atoms[i][:3], m2.atoms[j][:3] = mol.atoms[j][:3], mol.atoms[i][:3]
        m2.family += "+swap_elements"
        return m2
    if kind == "mass_rad":
        lab = [i for i in range(n) if mol.atoms[i][1] != mol.atoms[i][2]]
        if not lab:
            return None
        i = rnd.choice(lab)
        m2 = mol.copy()
        m2.atoms[i][1], m2.atoms[i][2] = mol.atoms[i][2], mol.atoms[i][1]
        m2.family += "+mass<->rad"
        return m2
    if kind == "move_edge":
        if mol.m < 1 or n < 3:
            return None
        es = mol.edge_set()
        a, b, _ = rnd.choice(mol.bonds)
        cands = [c for c in range(n) if c not in (a, b) and frozenset((a, c)) not in es]
        if not cands:
            return None
        c = rnd.choice(cands)
        nb = [x for x in mol.bonds if frozenset(x[:2]) != frozenset((a, b))] + [[a, c, 1]]
        return Mol(mol.atoms, nb, mol.family + "+move_edge")
    return None


@st.composite
def strategy_(draw, tier):
    kind = draw(st.sampled_from(["mutant", "mutant", "mutant", "cfi", "catalogue"]))
    seed = draw(st.integers(0, 2**31))
    if kind == "cfi":
        bname = draw(st.sampled_from(sorted(gens.CFI_BASES)[:4] if tier == "quick" else sorted(gens.CFI_BASES)))
        bn, be = gens.CFI_BASES[bname]
        t1 = draw(st.lists(st.integers(0, len(be) - 1), max_size=2, unique=True))
        t2 = draw(st.lists(st.integers(0, len(be) - 1), min_size=1, max_size=3, unique=True))
        n1, e1, _ = gens.cfi(bn, be, set(t1))
        n2, e2, _ = gens.cfi(bn, be, set(t2))
        a = Mol.simple([6] * n1, e1, family=f"cfi:{bname}:t{len(t1)%2}").to_json()
        b = Mol.simple([6] * n2, e2, family=f"cfi:{bname}:t{len(t2)%2}").to_json()
        return {"a": a, "b": b, "kind": kind, "perm_seed": seed}
    if kind == "catalogue":
        which = draw(st.sampled_from(["srg16", "c6_vs_2c3", "prism_vs_k33", "cospectral6"]))
        if which == "srg16":
            (n1, e1), (n2, e2) = gens.shrikhande(), gens.rook4()
        elif which == "c6_vs_2c3":
            n1, e1 = 6, gens._cycle(6)
            n2, e2 = gens._copies(3, gens._cycle(3), 2)
        elif which == "prism_vs_k33":
            n1, e1 = gens._prism(3)
            n2, e2 = 6, gens._complete_bipartite(3, 3)
        else:  # K_{1,4} + K_1 ... classic cospectral pair: C4 u K1 vs K_{1,4}
            n1, e1 = 5, gens._cycle(4)
            n2, e2 = 5, [(0, i) for i in range(1, 5)]
        z = draw(st.sampled_from([6, 14, 5]))
        return {"a": Mol.simple([z] * n1, e1, family=which + ":a").to_json(), "b": Mol.simple([z] * n2, e2, family=which + ":b").to_json(), "kind": kind, "perm_seed": seed}
    mol = draw(gens.mols(tier, families=("er", "skeleton", "chem", "er", "wlhard", "multi", "collide"), wide=draw(st.integers(0, 3)) == 0))
    mk = draw(st.sampled_from(["two_switch", "two_switch", "move_label", "swap_elements", "mass_rad", "move_edge"]))
    return {"a": mol, "mutation": mk, "kind": kind, "perm_seed": seed, "route": draw(st.sampled_from(["graph", "graph", "v2000", "v3000"]))}


def strategy(tier):
    return strategy_(tier)


_SEEN = {}


def _listing(mol, rnd):
    """Atom lines, bond lines and file indices in drawn orders (indices a shuffled 1..n or sparse)."""
    order = list(range(mol.n))
    rnd.shuffle(order)
    keys = list(range(1, mol.n + 1))
    how = rnd.random()
    if how < 0.4:
        rnd.shuffle(keys)
    elif how < 0.6:
        keys = rnd.sample(range(1, 4 * mol.n + 10), mol.n)
    border = list(range(mol.m))
    rnd.shuffle(border)
    return {"order": order, "keys": keys, "bond_order": border, "flips": [rnd.random() < 0.5 for _ in range(mol.m)]}


def string_of(mol, rnd, route="graph"):
    pi = list(range(mol.n))
    rnd.shuffle(pi)
    pm = mol.permute(pi)
    in_range = all(0 <= a[1] <= 999 and 0 <= a[2] <= 3 for a in pm.atoms) and pm.n <= 999 and pm.m <= 999
    if route == "v2000" and in_range:
        from ..lib import call, graph_from_molfile_text
        from ..render import render_v2000

        style = {"seed": rnd.randrange(2**31), "per_line": rnd.choice([1, 3, 8]), "vary_per_line": rnd.random() < 0.5, "chg_by": rnd.choice(["mline", "auto"]), "stale_codes": rnd.random() < 0.5, "shuffle_props": True, "interleave": rnd.random() < 0.5,
                 "dt": rnd.random() < 0.7}
        return pipeline(call("read", graph_from_molfile_text, render_v2000(pm, _listing(pm, rnd), style)))
    if route == "v3000" and in_range:
        from ..lib import call, graph_from_molfile_text
        from ..render import render_v3000

        return pipeline(call("read", graph_from_molfile_text, render_v3000(pm, _listing(pm, rnd), {"seed": rnd.randrange(2**31), "split": "random", "prop_shuffle": True, "dt": rnd.random() < 0.5})))
    return pipeline(mol_to_graph(pm))


def iso_of(a, b):
    colsA = [a.colour(i) for i in range(a.n)]
    colsB = [b.colour(i) for i in range(b.n)]
    return iso.isomorphic(colsA, [tuple(sorted(e)) for e in a.edge_set()], colsB, [tuple(sorted(e)) for e in b.edge_set()])


def weak_invariants(m):
    """What a weak identifier would look at: formula, degree sequence, 1-WL colour histogram."""
    cls, _ = m.wl()
    size = {}
    col = {}
    for i, c in enumerate(cls):
        size[c] = size.get(c, 0) + 1
        col[c] = m.colour(i)
    return (m.formula_hill(), sorted(m.degrees()), sorted((col[c], size[c]) for c in size))


def check(case, stats):
    rnd = random.Random(case["perm_seed"])
    a = Mol.from_json(case["a"])
    if "b" in case:
        b = Mol.from_json(case["b"])
    else:
        b = mutate(a, case["mutation"], rnd)
        if b is None:
            stats.label("mutation_not_applicable")
            b = a
    route = case.get("route", "graph")
    sa = string_of(a, rnd, route)
    sb = string_of(b, rnd, route)
    stats.label("route:" + route)
    if route != "graph":
        # a file whose string is the string of ANOTHER molecule is a collision as well: decode the
        # string with the reference reader and compare with what was rendered
        from .. import refgrammar as rg

        for m0, s0 in ((a, sa), (b, sb)):
            try:
                ref = rg.read(s0)
            except (rg.Rejected, ValueError):
                continue  # not a sentence: C05's business
            atoms = [[z, ref["attrs"].get(k, {}).get("mass", 0), ref["attrs"].get(k, {}).get("rad", 0), 0, 0.0, 0.0, 0.0] for k, z in enumerate(ref["atoms"])]
            decoded = Mol(atoms, [[*sorted(e), 1] for e in ref["bonds"]], "decoded")
            if iso_of(m0, decoded) is False and pipeline(mol_to_graph(decoded)) == s0:
                raise Violation("collision-across-formats", f"the {route} rendering of {m0.brief()} gets the string {s0[:160]!r}, which is the string of the non-isomorphic molecule {decoded.brief()}", string=s0[:500])
    stats.evaluated(2)
    stats.label("kind:" + case["kind"] + (":" + case.get("mutation", "") if "mutation" in case else ""))
    same = iso_of(a, b) if (sa == sb or a.n <= 40) else False
    if sa == sb:
        if same is None:
            stats.label("isomorphism_inconclusive_budget")
        elif not same:
            raise Violation("collision", f"non-isomorphic molecules {a.brief()} and {b.brief()} share the string {sa[:200]!r}", string=sa[:500])
        else:
            stats.label("pair_isomorphic")
    # run-wide dictionary string -> first molecule seen (per shard process)
    for s, m in ((sa, a), (sb, b)):
        if m.n > 60:
            continue
        prev = _SEEN.get(s)
        if prev is None:
            if len(_SEEN) < 200000:
                _SEEN[s] = m.to_json()
        elif prev["atoms"] != m.to_json()["atoms"] or prev["bonds"] != m.to_json()["bonds"]:
            pm = Mol.from_json(prev)
            r = iso_of(pm, m)
            stats.label("dictionary_hits")
            if r is False:
                raise Violation("collision", f"non-isomorphic molecules {pm.brief()} and {m.brief()} share the string {s[:200]!r}", string=s[:500])
    if sa != sb and same is False:
        wa, wb = weak_invariants(a), weak_invariants(b)
        if wa == wb:
            stats.label("nearmiss_same_formula_degrees_WL")
            stats.mark_nontrivial(case_digest(case), {"a": a.brief(), "b": b.brief(), "strings": [sa[:100], sb[:100]]})


def replay_extra(rec, stats):
    check(rec["case"], stats)


# ---- exhaustive enumeration -------------------------------------------------------------


def _enum_worker(args):
    n, mask, pairs, palette, seed = args
    es, auts = iso.aut_group(n, mask, pairs)
    out = []
    rnd = random.Random(f"{seed}|{n}|{mask}")
    for colouring in iso.colouring_classes(n, auts, len(palette)):
        atoms = [[palette[c][0], palette[c][1], palette[c][2], 0, float(i), 0.0, 0.0] for i, c in enumerate(colouring)]
        mol = Mol(atoms, [[a, b, 1] for a, b in es], f"enum:n{n}")
        out.append((string_of(mol, rnd), mol.to_json()))
    return out


def extra(ctx):
    tier, seed = ctx["tier"], ctx["seed"]
    stats = Stats()
    plan = [(n, PALETTE3) for n in range(1, 7)]
    if tier == "thorough":
        plan = [(n, PALETTE5) for n in range(1, 6)] + [(6, PALETTE5[:4])]
    jobs = []
    for n, pal in plan:
        reps, pairs = iso.graph_classes(n)
        if len(reps) != iso.KNOWN_GRAPH_COUNTS[n]:
            raise iso.HarnessError(f"graph class enumeration for n={n} gave {len(reps)} classes")
        jobs += [(n, mask, pairs, pal, seed) for mask in reps]
    failures = []
    seen = {}
    classes = 0
    with mp.get_context("fork").Pool(16) as pool:
        for res in pool.imap_unordered(_enum_worker, jobs, chunksize=4):
            for s, mj in res:
                classes += 1
                stats.evaluated()
                if s in seen:
                    a, b = Mol.from_json(seen[s]), Mol.from_json(mj)
                    failures.append({"sub": "collision-enumerated", "message": f"two different isomorphism classes {a.brief()} and {b.brief()} share the string {s!r}",
                                     "details": {}, "case": {"a": seen[s], "b": mj, "kind": "enumerated", "perm_seed": seed}, "bucket": ["collision", None, None], "phase": "enumeration"})
                else:
                    seen[s] = mj
                    stats.mark_nontrivial("enum:" + s, {"enumerated_class": Mol.from_json(mj).brief(), "string": s} if classes % 9973 == 1 else None)
    stats.label("enumerated_classes", classes)
    desc = "all coloured graphs up to isomorphism, n<=6, colours {C,13C,O}" if tier == "quick" else "n<=5 over {C,13C,O,C-rad,N}; n=6 over {C,13C,O,C-rad}"
    return {"failures": failures, "stats": stats.dump(), "info": {"exhaustive_subdomain": desc, "enumerated_classes": classes, "exhaustive": False}}
