"""C16 - the permutation helper returns a faithful relabelled copy (model-based)."""

from __future__ import annotations

import copy
import random

from hypothesis import strategies as st

from .. import gens
from ..lib import GA, Violation, call, canonicalize_molecule, graph_from_molfile_text, graph_from_tucan, mol_to_graph, permute_molecule, pipeline
from ..mol import Mol, case_digest
from ..render import render_v3000

ID = "C16"
RULE = (
    "case = graph from the reader / the parser / canonicalize_molecule / a non-contiguous "
    "relabelling, with unique tags, charges and bond types, x seed in [0,1) (incl. 0.0, 0.42, "
    "1-2^-53) x interleaved consumption of the global random generator; oracle: same label set, "
    "nodes iterate in ascending label order, tag->node bijection carries every node attribute, "
    "bonds map to bonds with identical attribute dicts and nothing else exists, argument equals "
    "its snapshot, equal seeds give equal results, and for |E|>=2 non-complete graphs the edge "
    "set differs. Non-trivial = |E|>=2, not complete, and some attribute beyond the defaults."
)
MANIFEST = {
    "text": "Model-based search: permute_molecule's result is compared with the model 'an attribute-preserving bijective relabelling onto the same label set, listed in label order, deterministic in the seed, argument untouched, edge set changed when that is possible'. Inputs come from every producer in the library (reader, parser, canonicalizer output whose iteration order differs from label order).",
    "note": "Trusted: the snapshot/compare code of the harness.",
    "technique": "property-based testing: model-based check of permute_molecule over generated graphs and seeds (Hypothesis, 16 shards)",
}
ASSUMPTIONS = ["seeds are floats in [0,1) as documented"]


def budget(tier):
    return {"examples": 500 if tier == "quick" else 10000, "shards": 16, "wall": 120 if tier == "quick" else 2400}


@st.composite
def strategy_(draw, tier):
    mol = draw(gens.mols(tier, families=("er", "skeleton", "chem", "er", "corpus")))
    seed = draw(st.one_of(st.sampled_from([0.0, 0.42, 1 - 2**-53, 0.5]), st.floats(0, 1, exclude_max=True)))
    return {"mol": mol, "producer": draw(st.sampled_from(["constructor", "reader", "parser", "canonical", "relabelled"])),
            "seed": seed, "consume": draw(st.integers(0, 3)), "order": draw(gens.perms(len(mol["atoms"])))}


def strategy(tier):
    return strategy_(tier)


def snapshot(g):
    return (list(g.nodes), {v: copy.deepcopy(dict(d)) for v, d in g.nodes(data=True)},
            [(a, b, copy.deepcopy(dict(d))) for a, b, d in g.edges(data=True)])


def build(case):
    mol = Mol.from_json(case["mol"])
    prod = case["producer"]
    if prod in ("reader",) and all(0 <= a[1] <= 999 and 0 <= a[2] <= 3 for a in mol.atoms):
        g = call("read", graph_from_molfile_text, render_v3000(mol, None, {"seed": 1}))
    elif prod == "parser":
        g = call("parse", graph_from_tucan, pipeline(mol_to_graph(mol)))
        for k, v in enumerate(list(g.nodes)):
            g.nodes[v][GA.CHG] = (k % 3) - 1
        for k, (a, b) in enumerate(list(g.edges)):
            g.edges[a, b][GA.BOND_TYPE] = 1 + k % 3
    elif prod == "canonical":
        g = call("canonicalize", canonicalize_molecule, mol_to_graph(mol, case["order"]))
    elif prod == "relabelled":
        import networkx as nx

        g0 = mol_to_graph(mol, case["order"])
        g = nx.relabel_nodes(g0, {v: 7 * case["order"][v] + 3 for v in g0.nodes}, copy=True)
    else:
        g = mol_to_graph(mol, case["order"])
    for k, v in enumerate(list(g.nodes)):
        g.nodes[v]["x_coord"] = float(k)  # unique tag
    return g


def check(case, stats):
    import networkx as nx

    g = build(case)
    n, m = g.number_of_nodes(), g.number_of_edges()
    snap = snapshot(g)
    seed = case["seed"]
    r1 = call("permute", permute_molecule, g, random_seed=seed)
    stats.evaluated()
    if snapshot(g) != snap:
        raise Violation("argument-mutated", "permute_molecule changed its argument")
    if set(r1.nodes) != set(g.nodes):
        raise Violation("label-set", f"result labels {sorted(r1.nodes)[:8]} != argument labels {sorted(g.nodes)[:8]}")
    if list(r1.nodes) != sorted(r1.nodes):
        raise Violation("iteration-order", "result does not list its atoms in ascending label order")
    if r1.number_of_nodes() != n or r1.number_of_edges() != m:
        raise Violation("counts", f"result has {r1.number_of_nodes()} atoms / {r1.number_of_edges()} bonds, argument {n} / {m}")
    tag_to_new = {}
    for v, d in r1.nodes(data=True):
        t = d.get("x_coord")
        if t in tag_to_new:
            raise Violation("bijection", "two result atoms carry the same tag")
        tag_to_new[t] = v
    f = {}
    for v, d in g.nodes(data=True):
        t = d["x_coord"]
        if t not in tag_to_new:
            raise Violation("bijection", f"atom with tag {t} disappeared")
        f[v] = tag_to_new[t]
        if dict(r1.nodes[f[v]]) != dict(d):
            raise Violation("node-attributes", f"atom {v}->{f[v]}: attributes {dict(d)} became {dict(r1.nodes[f[v]])}")
    for a, b, d in g.edges(data=True):
        if not r1.has_edge(f[a], f[b]):
            raise Violation("bonds", f"bond {a}-{b} has no image {f[a]}-{f[b]}")
        if dict(r1.edges[f[a], f[b]]) != dict(d):
            raise Violation("bond-attributes", f"bond {a}-{b}: attributes {dict(d)} became {dict(r1.edges[f[a], f[b]])}")
    # determinism in the seed, also with other consumers of the global generator in between
    for _ in range(case["consume"]):
        random.random()
    r2 = call("permute", permute_molecule, g, random_seed=seed)
    if snapshot(r1) != snapshot(r2):
        raise Violation("seed-determinism", f"two calls with seed {seed!r} returned different graphs")
    complete = n >= 1 and m == n * (n - 1) // 2
    if m >= 2 and not complete:
        if {frozenset(e) for e in r1.edges} == {frozenset(e) for e in g.edges}:
            raise Violation("edge-set-unchanged", f"|E|={m}, not complete, but the edge set equals the original (seed {seed!r})")
    rich = any(d.get(GA.CHG) or d.get(GA.MASS) or d.get(GA.RAD) for _, d in g.nodes(data=True)) or any(d.get(GA.BOND_TYPE, 1) != 1 for *_, d in g.edges(data=True))
    stats.label("producer:" + case["producer"])
    if list(g.nodes) != sorted(g.nodes):
        stats.label("iteration_order!=label_order")
    if m >= 2 and not complete and rich:
        stats.mark_nontrivial(case_digest(case), {"mol": Mol.from_json(case["mol"]).brief(), "producer": case["producer"], "seed": seed})
