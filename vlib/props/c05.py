"""C05 - every emitted string obeys the published grammar and canonical layout."""

from __future__ import annotations

from hypothesis import strategies as st

from .. import gens, sentences as sn, styles
from .. import refgrammar as rg
from ..lib import Violation, call, graph_from_molfile_text, graph_from_tucan, mol_to_graph, pipeline
from ..mol import Mol, case_digest
from ..render import render_v2000, render_v3000
from ..validator import LayoutError, validate

ID = "C05"
RULE = (
    "case = a molecule reaching the serializer through one of three producers: own V3000 / V2000 "
    "renderings read by the library (incl. explicit MASS=0 / RAD=0 / CHG=0, zero-valued M lines, "
    "D/T), accepted sentences built from the grammar and parsed by the library (values up to "
    "1e39, all 118 elements, counts crossing 1/2/9/10/99/100/1000), and the graph constructor; "
    "oracle = own validator: sentence of the repo's .ebnf, Hill formula equal to the abstract "
    "element counts (count 1 never written), blocks by increasing Z, exactly |E| tuples each a<b "
    "in strictly ascending order, bonded-element-pair multiset and per-atom (Z, mass, rad, degree) "
    "multiset equal to the molecule's, one attribute block per labelled atom in ascending index "
    "order with unique keys and positive values. Non-trivial = carbon formula with >=3 elements, "
    "or H without C, or a count >=10, or >=1 attribute block, or an explicit zero attribute in the "
    "source; distinct by case digest."
)
MANIFEST = {
    "text": "Search over everything the library can feed to its serializer (reader output incl. explicitly written defaults, parser output with arbitrary positive values, constructor output over all 118 elements) with the emitted string judged by a validator that shares no code with the library: the published EBNF interpreted as data plus the layout rules of the property. Finds C1 / unsorted tuples / (b-a) / zero-valued attributes / wrong Hill order / missing or superfluous attribute blocks.",
    "note": "Trusted: vlib/refgrammar.py, vlib/validator.py, own periodic table. Key order inside an attribute block and an empty third section are not constrained (the property does not state them).",
    "technique": "property-based testing with an independent grammar+layout validator (Hypothesis, 16 shards)",
}
FUZZ = {"procs": 12, "runs": 15000, "timeout": 1500}
ASSUMPTIONS = ["the validator checks necessary layout conditions; full isomorphism is C03's job"]


def budget(tier):
    return {"examples": 500 if tier == "quick" else 12000, "shards": 16, "wall": 150 if tier == "quick" else 3000}


@st.composite
def strategy_(draw, tier):
    producer = draw(st.sampled_from(["v3000", "v3000", "v2000", "parser", "parser", "constructor"]))
    if producer == "parser":
        struct = draw(sn.structures(max_atoms=400 if tier == "quick" else 1500, max_tuples=40, allow_empty=False))
        return {"producer": producer, "struct": struct}
    if producer == "constructor":
        mol = draw(st.one_of(gens.mols(tier, wide=True), gens.fam_er(110, wide=True)))
        return {"producer": producer, "mol": mol, "order": draw(gens.perms(len(mol["atoms"]))), "post": draw(st.sampled_from(["none", "none", "relabel", "recanon"]))}
    mol = draw(st.one_of(gens.mols(tier, families=("er", "skeleton", "chem", "er")), gens.fam_er(110)))
    n, m = len(mol["atoms"]), len(mol["bonds"])
    if producer == "v3000":
        style = draw(styles.v3000_styles(allow_exachg=False))
    else:
        style = draw(styles.v2000_styles())
    return {"producer": producer, "mol": mol, "listing": draw(gens.listing(n, m)), "style": style}


def strategy(tier):
    return strategy_(tier)


def check(case, stats):
    prod = case["producer"]
    explicit_zero = False
    if prod == "parser":
        s0 = sn.spell(case["struct"])
        try:
            ref = rg.read(s0)
        except rg.Rejected:
            return  # generator only builds valid sentences; a rejected one is not in the domain
        atoms = []
        for k, z in enumerate(ref["atoms"]):
            a = ref["attrs"].get(k, {})
            atoms.append([z, a.get("mass", 0), a.get("rad", 0), 0, 0.0, 0.0, 0.0])
        mol = Mol(atoms, [[*sorted(e), 1] for e in ref["bonds"]], "parsed")
        g = call("parse", graph_from_tucan, s0)
    elif prod == "constructor":
        mol = Mol.from_json(case["mol"])
        from .c01 import post_process

        g = post_process(mol_to_graph(mol, case["order"]), {"post": case.get("post", "none"), "pi": case["order"]})
    else:
        mol = Mol.from_json(case["mol"])
        if prod == "v2000":
            mol = Mol([[a[0], min(a[1], 999), min(a[2], 3), a[3], a[4], a[5], a[6]] for a in mol.atoms], [[i, j, min(max(t, 1), 9)] for i, j, t in mol.bonds], mol.family)
            if mol.n > 999 or mol.m > 999:
                return
            text = render_v2000(mol, case["listing"], case["style"])
            explicit_zero = bool(case["style"].get("zero_entries"))
        else:
            text = render_v3000(mol, case["listing"], case["style"])
            explicit_zero = bool(case["style"].get("explicit_zero"))
        g = call("read", graph_from_molfile_text, text)
    # the molecule judged is the one the producer handed to the pipeline (what the reader /
    # parser decoded is C07/C08/C10's business), re-abstracted by reading the graph's attributes
    mol = Mol.from_json(gens.mol_from_graph(g, mol.family))
    s = pipeline(g)
    stats.evaluated()
    try:
        ref = validate(s, mol)
    except LayoutError as e:
        raise Violation("layout:" + e.rule, f"producer={prod}: emitted {s[:300]!r}: {e.msg}", string=s[:2000]) from None
    syms = [x for x, _ in ref["formula"]]
    stats.label("producer:" + prod)
    stats.maximum("max_atoms", mol.n)
    stats.maximum("max_elements", len(syms))
    nt = ("C" in syms and len(syms) >= 3) or ("H" in syms and "C" not in syms) or any(c >= 10 for _, c in ref["formula"]) or bool(ref["attr_blocks_raw"]) or explicit_zero
    if explicit_zero:
        stats.label("explicit_zero_in_source")
    if ref["attr_blocks_raw"]:
        stats.label("has_attribute_blocks")
    if nt:
        stats.mark_nontrivial(case_digest(case), {"producer": prod, "string": s[:200]})
