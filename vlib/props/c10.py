"""C10 - the parser accepts exactly the grammar and returns the denoted graph."""

from __future__ import annotations

from hypothesis import strategies as st

from .. import refgrammar as rg
from .. import sentences as sn
from ..lib import GA, TucanParserException, Violation, graph_from_tucan, innermost_tucan_frame
from ..mol import case_digest
from ..ptable import SYM_OF

ID = "C10"
RULE = (
    "case = a string: (a) sentence built from the grammar by construction (all 118 elements incl. "
    "shared prefixes C/Cl/Cs/Co/Cn.., counts 1/2..9/>=10/1000, tuples in any order/orientation/"
    "duplicated, attribute blocks split/merged, values up to 1e39, empty molecule), (b) one token-"
    "level edit (insert/delete/replace/transpose over the token alphabet + junk: 0, leading zeros, "
    "blank, newline, D, T, lower-case symbols, Unicode dashes/digits, misspelt keys) of such a "
    "sentence, (c) index boundary n / n+1, self-bonds, duplicate attributes. Oracle: reference "
    "reader = character-level interpreter of the repo's published tucan.ebnf + hand-written "
    "denotation: accept/reject equal; rejection only by TucanParserException; accepted graph has "
    "nodes 0..n-1 with node k = element of block order by Z (own table), mass/rad exactly as "
    "listed, edge set = listed 2-sets, nothing else. Non-trivial = rejected strings one edit away "
    "from a valid sentence (kinds b, c), and accepted strings with attributes or with >=2 elements "
    "whose Hill order differs from Z order; distinct by string."
)
MANIFEST = {
    "text": "Differential search against an independent reference reader derived from the published EBNF: every generated string (valid by construction, single-token edits of valid ones, index/duplicate boundaries) must get the same accept/reject decision, be rejected only with TucanParserException, and on acceptance denote exactly the same graph. Case kinds are drawn first so accepted and rejected strings are both well represented. Thorough additionally enumerates complete single-edit neighbourhoods and runs a coverage-guided (Atheris) campaign over the same oracle.",
    "note": "Trusted: the EBNF interpreter (self-tested on frozen examples at start-up) and the denotation layer. Bounds: numerals <= 40 digits, formula atom total <= 6000 (CPython int/ memory limits).",
    "technique": "property-based differential testing vs a reference reader built from the published EBNF (Hypothesis, 16 shards) + Atheris coverage-guided fuzzing in the thorough tier",
}
FUZZ = {"procs": 12, "runs": 60000, "timeout": 3000}
ASSUMPTIONS = [
    "character-level CFG semantics of the EBNF equal ANTLR token-level semantics for this grammar (argued in vlib/refgrammar.py)",
    "numerals <= 40 digits and sum of formula counts <= 6000 (CPython / memory limits)",
]
MAX_ATOMS = 6000


def budget(tier):
    return {"examples": 1000 if tier == "quick" else 40000, "shards": 16, "wall": 150 if tier == "quick" else 3000}


@st.composite
def strategy_(draw, tier):
    kind = draw(st.sampled_from(["valid", "valid", "edit", "edit", "edit", "boundary"]))
    if kind == "valid":
        big = draw(st.integers(0, 9)) == 0
        s = sn.spell(draw(sn.structures(max_atoms=3000 if big else 300, max_tuples=30)))
    elif kind == "edit":
        s = draw(sn.edited())
    else:
        s = draw(sn.boundary())
    return {"s": s, "kind": kind}


def strategy(tier):
    return strategy_(tier)


def compare(s, stats=None):
    """Run library and reference on s; raise Violation on any disagreement. Returns
    ("accept"|"reject", ref)."""
    try:
        ref = rg.read(s, max_atoms=MAX_ATOMS)
        ref_ok = True
    except rg.Rejected as e:
        ref, ref_ok, why = None, False, str(e)
    except ValueError:
        return "skipped", None
    try:
        g = graph_from_tucan(s)
        lib_ok = True
    except TucanParserException:
        lib_ok = False
    except (KeyboardInterrupt, SystemExit, MemoryError):
        raise
    except BaseException as e:  # noqa: BLE001
        raise Violation("exception-type", f"{s!r}: parser raised {type(e).__name__}: {str(e)[:200]} (reference {'accepts' if ref_ok else 'rejects'})",
                        exception=type(e).__name__, frame=innermost_tucan_frame(e.__traceback__)) from None
    if ref_ok and not lib_ok:
        raise Violation("rejects-valid", f"{s!r} is a valid sentence with valid indices but the parser rejects it")
    if lib_ok and not ref_ok:
        raise Violation("accepts-invalid", f"{s!r} should be rejected ({why}) but the parser accepts it")
    if not ref_ok:
        return "reject", None
    n = len(ref["atoms"])
    if sorted(g.nodes) != list(range(n)) or list(g.nodes) != list(range(n)):
        raise Violation("graph:node-set", f"{s!r}: node set {list(g.nodes)[:10]} is not 0..{n-1} in order")
    for k in range(n):
        d = g.nodes[k]
        z = ref["atoms"][k]
        if d.get(GA.ATOMIC_NUMBER) != z or d.get(GA.ELEMENT_SYMBOL) != SYM_OF[z]:
            raise Violation("graph:element", f"{s!r}: atom {k+1} should be {SYM_OF[z]} (Z={z}), parser gives {d.get(GA.ELEMENT_SYMBOL)} (Z={d.get(GA.ATOMIC_NUMBER)})")
        want = ref["attrs"].get(k, {})
        got = {"mass": d.get(GA.MASS, 0) or 0, "rad": d.get(GA.RAD, 0) or 0}
        if got != {"mass": want.get("mass", 0), "rad": want.get("rad", 0)}:
            raise Violation("graph:attributes", f"{s!r}: atom {k+1} should carry {want}, parser gives {got}")
    edges = {frozenset(e) for e in g.edges}
    if edges != ref["bonds"] or g.number_of_edges() != len(ref["bonds"]):
        raise Violation("graph:bonds", f"{s!r}: bonds differ: missing={sorted(map(sorted, ref['bonds'] - edges))[:5]} extra={sorted(map(sorted, edges - ref['bonds']))[:5]}")
    return "accept", ref


def check(case, stats):
    s = case["s"]
    res, ref = compare(s)
    stats.evaluated()
    stats.label("kind:" + case["kind"])
    stats.label("result:" + res)
    stats.label(f"{case['kind']}->{res}")
    stats.maximum("max_len", len(s))
    if res == "reject" and case["kind"] in ("edit", "boundary"):
        stats.mark_nontrivial(case_digest(s), {"string": s[:160], "kind": case["kind"], "result": res})
    elif res == "accept":
        from ..ptable import hill_order

        syms = [e for e, _ in ref["formula"]]
        zorder = [SYM_OF[z] for z in sorted({z for z in ref["atoms"]})]
        stats.maximum("max_atoms", len(ref["atoms"]))
        if ref["attrs"] or (len(syms) >= 2 and syms != zorder):
            stats.mark_nontrivial(case_digest(s), {"string": s[:160], "kind": case["kind"], "result": res})
