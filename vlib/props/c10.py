"""C10 - the parser accepts exactly the grammar and returns the denoted graph."""

from __future__ import annotations

from hypothesis import strategies as st

from .. import refgrammar as rg
from .. import sentences as sn
from ..lib import GA, TucanParserException, Violation, graph_from_tucan, innermost_tucan_frame
from ..mol import case_digest
from ..ptable import SYM_OF

ID = "C10"
RULE = (
    "case = a string: (a) sentence built from the grammar by construction (all 118 elements incl. "
    "shared prefixes C/Cl/Cs/Co/Cn.., counts 1/2..9/>=10/1000, tuples in any order/orientation/"
    "duplicated, attribute blocks split/merged, values up to 1e39, empty molecule), (b) one token-"
    "level edit (insert/delete/replace/transpose over the token alphabet + junk: 0, leading zeros, "
    "blank, newline, D, T, lower-case symbols, Unicode dashes/digits, misspelt keys) of such a "
    "sentence, (c) index boundary n / n+1, self-bonds, duplicate attributes. Oracle: reference "
    "reader = character-level interpreter of the repo's published tucan.ebnf + hand-written "
    "denotation: accept/reject equal; rejection only by TucanParserException; accepted graph has "
    "nodes 0..n-1 with node k = element of block order by Z (own table), mass/rad exactly as "
    "listed, edge set = listed 2-sets, nothing else. Non-trivial = rejected strings one edit away "
    "from a valid sentence (kinds b, c), and accepted strings with attributes or with >=2 elements "
    "whose Hill order differs from Z order; distinct by string."
)
MANIFEST = {
    "text": "Differential search against an independent reference reader derived from the published EBNF: every generated string (valid by construction, single-token edits of valid ones, index/duplicate boundaries) must get the same accept/reject decision, be rejected only with TucanParserException, and on acceptance denote exactly the same graph. Case kinds are drawn first so accepted and rejected strings are both well represented. Both tiers enumerate the COMPLETE single-token edit neighbourhood (every insertion/replacement over the token alphabet + junk, every deletion, every transposition) of 8 (quick) / 64 (thorough) drawn sentences; thorough additionally runs a coverage-guided Atheris campaign over the same oracle.",
    "note": "Trusted: the EBNF interpreter (self-tested on frozen examples at start-up) and the denotation layer. Bounds: numerals <= 40 digits, formula atom total <= 6000 (CPython int/ memory limits).",
    "technique": "property-based differential testing vs a reference reader built from the published EBNF (Hypothesis, 16 shards) + Atheris coverage-guided fuzzing in the thorough tier",
}
FUZZ = {"procs": 12, "runs": 60000, "timeout": 1500}
ASSUMPTIONS = [
    "character-level CFG semantics of the EBNF equal ANTLR token-level semantics for this grammar (argued in vlib/refgrammar.py)",
    "numerals <= 40 digits and sum of formula counts <= 6000 (CPython / memory limits)",
]
MAX_ATOMS = 6000


def budget(tier):
    return {"examples": 1000 if tier == "quick" else 40000, "shards": 16, "wall": 150 if tier == "quick" else 3000}


@st.composite
def strategy_(draw, tier):
    kind = draw(st.sampled_from(["valid", "valid", "edit", "edit", "edit", "boundary"]))
    if kind == "valid":
        big = draw(st.integers(0, 9)) == 0
        s = sn.spell(draw(sn.structures(max_atoms=3000 if big else 300, max_tuples=30)))
    elif kind == "edit":
        s = draw(sn.edited())
    else:
        s = draw(sn.boundary())
    return {"s": s, "kind": kind}


def strategy(tier):
    return strategy_(tier)


def compare(s, stats=None):
    """Run library and reference on s; raise Violation on any disagreement. Returns
    ("accept"|"reject", ref)."""
    try:
        ref = rg.read(s, max_atoms=MAX_ATOMS)
        ref_ok = True
    except rg.Rejected as e:
        ref, ref_ok, why = None, False, str(e)
    except ValueError:
        return "skipped", None
    try:
        g = graph_from_tucan(s)
        lib_ok = True
    except TucanParserException:
        lib_ok = False
    except (KeyboardInterrupt, SystemExit, MemoryError):
        raise
    except BaseException as e:  # noqa: BLE001
        raise Violation("exception-type", f"{s!r}: parser raised {type(e).__name__}: {str(e)[:200]} (reference {'accepts' if ref_ok else 'rejects'})",
                        exception=type(e).__name__, frame=innermost_tucan_frame(e.__traceback__)) from None
    if ref_ok and not lib_ok:
        raise Violation("rejects-valid", f"{s!r} is a valid sentence with valid indices but the parser rejects it")
    if lib_ok and not ref_ok:
        raise Violation("accepts-invalid", f"{s!r} should be rejected ({why}) but the parser accepts it")
    if not ref_ok:
        return "reject", None
    n = len(ref["atoms"])
    if sorted(g.nodes) != list(range(n)) or list(g.nodes) != list(range(n)):
        raise Violation("graph:node-set", f"{s!r}: node set {list(g.nodes)[:10]} is not 0..{n-1} in order")
    for k in range(n):
        d = g.nodes[k]
        z = ref["atoms"][k]
        if d.get(GA.ATOMIC_NUMBER) != z or d.get(GA.ELEMENT_SYMBOL) != SYM_OF[z]:
            raise Violation("graph:element", f"{s!r}: atom {k+1} should be {SYM_OF[z]} (Z={z}), parser gives {d.get(GA.ELEMENT_SYMBOL)} (Z={d.get(GA.ATOMIC_NUMBER)})")
        want = ref["attrs"].get(k, {})
        got = {"mass": d.get(GA.MASS, 0) or 0, "rad": d.get(GA.RAD, 0) or 0}
        if got != {"mass": want.get("mass", 0), "rad": want.get("rad", 0)}:
            raise Violation("graph:attributes", f"{s!r}: atom {k+1} should carry {want}, parser gives {got}")
    edges = {frozenset(e) for e in g.edges}
    if edges != ref["bonds"] or g.number_of_edges() != len(ref["bonds"]):
        raise Violation("graph:bonds", f"{s!r}: bonds differ: missing={sorted(map(sorted, ref['bonds'] - edges))[:5]} extra={sorted(map(sorted, edges - ref['bonds']))[:5]}")
    return "accept", ref


def check(case, stats):
    s = case["s"]
    res, ref = compare(s)
    stats.evaluated()
    stats.label("kind:" + case["kind"])
    stats.label("result:" + res)
    stats.label(f"{case['kind']}->{res}")
    stats.maximum("max_len", len(s))
    if res == "reject" and case["kind"] in ("edit", "boundary"):
        stats.mark_nontrivial(case_digest(s), {"string": s[:160], "kind": case["kind"], "result": res})
    elif res == "accept":
        from ..ptable import hill_order

        syms = [e for e, _ in ref["formula"]]
        zorder = [SYM_OF[z] for z in sorted({z for z in ref["atoms"]})]
        stats.maximum("max_atoms", len(ref["atoms"]))
        if ref["attrs"] or (len(syms) >= 2 and syms != zorder):
            stats.mark_nontrivial(case_digest(s), {"string": s[:160], "kind": case["kind"], "result": res})


# ---- complete single-edit neighbourhoods -------------------------------------------------


def _neigh_worker(args):
    base, lo, hi = args
    from ..lib import Violation as V

    toks = sn.tokens_of(base)
    alphabet = sn.ALPHABET_TOKENS + sn.JUNK_TOKENS[:24] + ["Cl", "Cn", "Hs", "Na", "D"]
    out = {"n": 0, "accept": 0, "reject": 0, "failures": []}

    def variants():
        for i in range(len(toks) + 1):
            for t in alphabet:
                yield toks[:i] + [t] + toks[i:]
        for i in range(len(toks)):
            yield toks[:i] + toks[i + 1 :]
            for t in alphabet:
                if t != toks[i]:
                    yield toks[:i] + [t] + toks[i + 1 :]
        for i in range(len(toks) - 1):
            if toks[i] != toks[i + 1]:
                yield toks[:i] + [toks[i + 1], toks[i]] + toks[i + 2 :]

    for k, v in enumerate(variants()):
        if not (lo <= k < hi):
            continue
        s2 = "".join(v)
        out["n"] += 1
        try:
            res, _ = compare(s2)
            out["accept" if res == "accept" else "reject"] += 1
        except V as e:
            if len(out["failures"]) < 3:
                out["failures"].append({"sub": e.sub, "message": e.msg, "details": {}, "case": {"s": s2, "kind": "neighbourhood"},
                                        "bucket": [e.sub, e.details.get("exception"), e.details.get("frame")]})
    return out


def extra(ctx):
    """Every single-token insertion / replacement (over the token alphabet + junk), deletion and
    transposition of a few drawn valid sentences: the complete edit-distance-1 neighbourhood."""
    import multiprocessing as mp
    import random

    from hypothesis import HealthCheck, find, settings  # noqa: F401
    from ..runner import Stats

    tier, seed = ctx["tier"], ctx["seed"]
    n_sent = 8 if tier == "quick" else 64
    rnd = random.Random(seed * 7919 + 13)
    # sentences from the constructive generator, drawn with a seeded Hypothesis run
    import hypothesis
    from hypothesis import given

    bases = []

    @hypothesis.seed(seed)
    @settings(max_examples=n_sent * 3, database=None, deadline=None, suppress_health_check=list(HealthCheck), phases=[hypothesis.Phase.generate])
    @given(sn.structures(max_atoms=30, max_tuples=6, allow_empty=False))
    def collect(struct):
        s0 = sn.spell(struct)
        if 8 <= len(sn.tokens_of(s0)) <= 40 and len(bases) < n_sent and s0 not in bases:
            bases.append(s0)

    collect()
    jobs = []
    for b in bases:
        nt = len(sn.tokens_of(b))
        total = (nt + 1) * 53 + nt * 54 + nt
        step = 1500
        jobs += [(b, lo, lo + step) for lo in range(0, total, step)]
    stats = Stats()
    failures = []
    with mp.get_context("fork").Pool(16) as pool:
        for r in pool.imap_unordered(_neigh_worker, jobs):
            stats.evaluated(r["n"])
            stats.label("neighbourhood->accept", r["accept"])
            stats.label("neighbourhood->reject", r["reject"])
            failures.extend(r["failures"])
    for b in bases[:3]:
        stats.mark_nontrivial("neigh:" + b, {"complete_single_edit_neighbourhood_of": b})
    return {"failures": failures, "stats": stats.dump(), "info": {"neighbourhood_sentences": len(bases), "neighbourhood_strings": stats.evaluations}}
