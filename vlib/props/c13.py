"""C13 - partition classes are label-independent, equitable and respect symmetry."""

from __future__ import annotations

from collections import Counter

from hypothesis import strategies as st

from .. import gens, iso
from ..lib import GA, Violation, call, canonicalize_molecule, mol_to_graph
from ..mol import Mol, case_digest

ID = "C13"
RULE = (
    "case = abstract molecule (er/skeleton/wlhard/chem/deep incl. chains needing >100 refinement "
    "rounds) with unique coordinate tags x a relabelling pi and listing order; oracle on the "
    "`partition` attribute of canonicalize_molecule's result traced back through the tags: (i) "
    "class of pi(a) in pi(G) == class of a in G; (ii) atoms of one class share (Z, mass, rad) and "
    "the multiset of neighbour classes (equitable); (iii) every automorphism found by an own "
    "individualisation-refinement search (<=200 per case, each verified) maps every atom into its "
    "own class. The same oracles run on EVERY coloured graph with n<=5 (quick) / n<=6 (thorough) atoms over 3 colours. Coarsest-ness is not demanded. Non-trivial = some colour class of the initial "
    "colouring is split by refinement, or a non-trivial automorphism exists; distinct by case digest."
)
MANIFEST = {
    "text": "Search over molecules and relabelings with three oracles on the partition classes: label-independence (metamorphic), equitability (invariant: same colour and same neighbour-class multiset within a class) and closure under automorphisms computed by independent code. The deep family (long chains, rings with one label, combs) reaches refinement depths far beyond the repo corpus, where a capped or early-exiting refinement loop would show.",
    "note": "Trusted: abstract model; verified automorphisms from own search. The partition is not required to be the coarsest equitable one.",
    "technique": "property-based testing: metamorphic + invariant + symmetry oracle (Hypothesis, 16 shards) + the same oracles on all coloured graphs n<=5/6 (exhaustive small scope)",
}
ASSUMPTIONS = ["automorphism enumeration is capped at 200 per case / bounded search budget"]


def budget(tier):
    return {"examples": 300 if tier == "quick" else 8000, "shards": 16, "wall": 150 if tier == "quick" else 3000}


@st.composite
def strategy_(draw, tier):
    mol = draw(gens.mols(tier, families=("er", "skeleton", "wlhard", "chem", "deep", "deep", "multi", "collide")))
    n = len(mol["atoms"])
    m = len(mol["bonds"])
    return {"mol": mol, "pi": draw(gens.perms(n)), "order": draw(gens.perms(n)), "post": draw(st.sampled_from(["none", "none", "relabel", "recanon"])),
            # the renumbered molecule may also be handed over as a molfile (atom lines, bond lines and
            # file indices in drawn orders)
            "route": draw(st.sampled_from(["graph", "graph", "graph", "v3000", "v2000"])), "bond_order": draw(gens.perms(m)), "flips": draw(gens.bool_list(m)),
            "keys": draw(gens.unique_keys(n)), "style_seed": draw(st.integers(0, 1000))}


def strategy(tier):
    return strategy_(tier)


def classes_by_tag(mol, order=None, post="none", pi=None, molfile=None):
    """Canonicalize and return class per abstract atom (tag = x coordinate = atom index).
    `post`: hand the library a description whose labels differ from iteration positions.
    `molfile`: (route, listing, style_seed) - describe the molecule as a rendered molfile."""
    from .c01 import molfile_ok, post_process

    m = mol.copy()
    for i, a in enumerate(m.atoms):
        a[4] = float(i)
    if molfile is not None and molfile[0] in ("v3000", "v2000") and molfile_ok(m, molfile[0]) and m.n < 9000:
        from ..lib import graph_from_molfile_text
        from ..render import render_v2000, render_v3000

        route, listing, sseed = molfile
        text = render_v3000(m, listing, {"seed": sseed}) if route == "v3000" else render_v2000(m, listing, {"seed": sseed, "chg_by": "mline"})
        g = call("read", graph_from_molfile_text, text)
    else:
        g = post_process(mol_to_graph(m, order), {"post": post, "pi": pi or []})
    c = call("canonicalize", canonicalize_molecule, g)
    cls = [None] * m.n
    for v, d in c.nodes(data=True):
        t = int(d[GA.X_COORD])
        if cls[t] is not None:
            raise Violation("tags", "two canonical atoms carry the same coordinate tag")
        cls[t] = d[GA.PARTITION]
    if any(x is None for x in cls):
        raise Violation("tags", "an atom's coordinate tag disappeared during canonicalization")
    return cls


def check_equitable(mol, cls, sub="equitable"):
    adj = mol.adjacency()
    sig = {}
    for i in range(mol.n):
        key = (mol.colour(i), tuple(sorted(Counter(cls[j] for j in adj[i]).items())))
        if cls[i] in sig:
            if sig[cls[i]][0] != key:
                j = sig[cls[i]][1]
                what = "colour (Z, mass, rad)" if key[0] != sig[cls[i]][0][0] else "neighbour-class multiset"
                raise Violation(sub, f"atoms {j} and {i} are both in class {cls[i]} but differ in {what}: {sig[cls[i]][0]} vs {key} in {mol.brief()}")
        else:
            sig[cls[i]] = (key, i)


def check(case, stats):
    mol = Mol.from_json(case["mol"])
    n = mol.n
    cls = classes_by_tag(mol)
    stats.evaluated()
    check_equitable(mol, cls)
    pi = case["pi"]
    pm = mol.permute(pi)
    mf = None
    if case.get("route", "graph") != "graph":
        mf = (case["route"], {"order": case["order"], "keys": case["keys"], "bond_order": case["bond_order"], "flips": case["flips"]}, case.get("style_seed", 0))
    cls2 = classes_by_tag(pm, case["order"], case.get("post", "none"), pi, molfile=mf)
    stats.label("post:" + case.get("post", "none"))
    stats.label("route:" + case.get("route", "graph"))
    stats.evaluated()
    for a in range(n):
        if cls2[pi[a]] != cls[a]:
            raise Violation("label-independence", f"atom {a} has class {cls[a]}, its image under the relabelling has class {cls2[pi[a]]} in {mol.brief()}")
    check_equitable(pm, cls2, "equitable-permuted")
    auts = []
    if n <= 250:
        colsA = [mol.colour(i) for i in range(n)]
        edges = [tuple(sorted(e)) for e in mol.edge_set()]
        auts = iso.automorphisms(colsA, edges, limit=200, node_budget=3000)
        for s in auts:
            for a in range(n):
                if cls[s[a]] != cls[a]:
                    raise Violation("symmetry", f"automorphism maps atom {a} (class {cls[a]}) to atom {s[a]} (class {cls[s[a]]}) in {mol.brief()}")
    nontrivial_aut = any(s != list(range(n)) for s in auts)
    init = Counter(mol.colour(i) for i in range(n))
    split = len(set(cls)) > len(init)
    _, rounds = mol.wl()
    stats.label("family:" + mol.family.split(":")[0])
    stats.maximum("max_refinement_rounds", rounds)
    stats.maximum("max_atoms", n)
    if rounds >= 3:
        stats.label("rounds>=3")
    if rounds >= 13:
        stats.label("rounds>=13")
    if rounds >= 50:
        stats.label("rounds>=50")
    if rounds > n // 2 + 1:
        stats.label("rounds>n/2+1")
    if nontrivial_aut:
        stats.label("nontrivial_automorphism")
    if split or nontrivial_aut:
        stats.mark_nontrivial(case_digest(case), {"mol": mol.brief(), "classes": len(set(cls)), "rounds": rounds, "automorphisms_checked": len(auts)})


def smallscope_fn(mol):
    from ..runner import Stats

    n = mol.n
    check({"mol": mol.to_json(), "pi": list(reversed(range(n))), "order": list(range(n)), "post": "none"}, Stats())
    return 2


def replay_extra(rec, stats):
    if "smallscope" in rec["case"]:
        smallscope_fn(Mol.from_json(rec["case"]["smallscope"]))
    else:
        check(rec["case"], stats)


def extra(ctx):
    """Small-scope exhaustive sweep: equitability, closure under ALL automorphisms and
    independence of a reversal of the numbering, for every coloured graph below the bound."""
    from .. import smallscope
    from ..runner import Stats

    nmax, ncol = (5, 3) if ctx["tier"] == "quick" else (6, 3)
    classes, evals, fails = smallscope.sweep(__name__, "smallscope_fn", nmax, ncol)
    stats = Stats()
    stats.evaluated(evals)
    stats.label("smallscope_classes", classes)
    return {"failures": fails, "stats": stats.dump(), "info": {"smallscope": f"partition oracles on all {classes} coloured graphs with n<={nmax} over {ncol} colours"}}
