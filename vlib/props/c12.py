"""C12 - canonicalization only renames atoms; nothing is lost, added or mutated.

Histories of calls over a pool of graph objects (stateful / model-based generation: the
history is one generated value, interpreted step by step with invariants checked after
every step, and shrinks as a whole)."""

from __future__ import annotations

import copy

from hypothesis import strategies as st

from .. import gens
from ..lib import GA, Violation, call, canonicalize_molecule, graph_from_molfile_text, graph_from_tucan, mol_to_graph, pipeline, serialize_molecule
from ..mol import Mol, case_digest
from ..render import render_v3000

ID = "C12"
RULE = (
    "case = pool of 1-3 generated molecules (reader / parser / constructor graphs and graphs whose "
    "labels differ from their iteration positions, with unique "
    "coordinate tags, random charges and bond types) + a history of up to 12 operations "
    "(canonicalize(obj), serialize(obj), serialize(canonicalize(obj)), each possibly repeated on "
    "the same object; results of canonicalize join the pool); invariants after every step: result "
    "is a bijective renaming onto 0..n-1 keeping every attribute except `partition` and every bond "
    "with its attribute dict; every pool object equals its deep snapshot ignoring the `explored` "
    "scratch key; repeating an operation on the same object gives an equal result. Non-trivial = "
    ">=2 operations on one object with >=1 bond; distinct by case digest."
)
MANIFEST = {
    "text": "History-based (stateful) search: generated sequences of canonicalize/serialize calls over a pool of shared graph objects (incl. graphs whose labels differ from their iteration positions), with the renaming invariant, the no-mutation invariant (deep snapshots of every pool object re-compared after every step) and the repeatability invariant evaluated after each step. Finds in-place relabelling, dropped copies, scratch state that leaks between calls, merged nodes.",
    "note": "Trusted: the harness' snapshot/compare code. The `explored` scratch key is ignored as the property allows.",
    "technique": "property-based testing over call histories (generated operation sequences interpreted against a model; Hypothesis, 16 shards)",
}
ASSUMPTIONS = ["serialize_molecule may leave an `explored` scratch flag on its argument (not chemically meaningful)"]


def budget(tier):
    return {"examples": 300 if tier == "quick" else 6000, "shards": 16, "wall": 150 if tier == "quick" else 3000}


@st.composite
def strategy_(draw, tier):
    k = draw(st.integers(1, 3))
    mols = [draw(gens.mols(tier, families=("er", "skeleton", "chem", "er", "multi"))) for _ in range(k)]
    prods = [draw(st.sampled_from(["constructor", "reader", "parser", "relabelled", "relabelled"])) for _ in range(k)]
    ops = draw(st.lists(st.tuples(st.sampled_from(["canon", "ser", "pipe", "canon", "ser"]), st.integers(0, 7)), min_size=1, max_size=12))
    return {"mols": mols, "producers": prods, "ops": [list(o) for o in ops], "orders": [draw(gens.perms(len(m["atoms"]))) for m in mols]}


def strategy(tier):
    return strategy_(tier)


def snapshot(g):
    def clean(d):
        d = copy.deepcopy(dict(d))
        d.pop(GA.EXPLORED, None)
        return d

    return (list(g.nodes), {v: clean(d) for v, d in g.nodes(data=True)}, [(a, b, copy.deepcopy(dict(d))) for a, b, d in g.edges(data=True)],
            {v: list(g.adj[v]) for v in g.nodes})


def make(mol_json, producer, order):
    mol = Mol.from_json(mol_json)
    if producer == "reader" and all(0 <= a[1] <= 999 and 0 <= a[2] <= 3 and -15 <= a[3] <= 15 for a in mol.atoms):
        g = call("read", graph_from_molfile_text, render_v3000(mol, {"order": order, "keys": [i + 1 for i in range(mol.n)]}, {"seed": 3}))
    elif producer == "parser":
        g = call("parse", graph_from_tucan, pipeline(mol_to_graph(mol)))
        for k, v in enumerate(list(g.nodes)):
            if k % 3:
                g.nodes[v][GA.CHG] = (k % 3) - 2
        for k, (a, b) in enumerate(list(g.edges)):
            g.edges[a, b][GA.BOND_TYPE] = 1 + k % 3
    elif producer == "relabelled":
        import networkx as nx

        g0 = mol_to_graph(mol)
        # same label set 0..n-1, iteration order untouched: labels != positions
        g = nx.relabel_nodes(g0, {v: order[k] for k, v in enumerate(g0.nodes)}, copy=True)
        for k, (a, b) in enumerate(list(g.edges)):
            g.edges[a, b][GA.BOND_TYPE] = 1 + k % 4
        for k, v in enumerate(list(g.nodes)):
            if k % 4 == 1:
                g.nodes[v][GA.CHG] = 1
    else:
        g = mol_to_graph(mol, order)
    for k, v in enumerate(list(g.nodes)):
        g.nodes[v][GA.X_COORD] = float(k)
        g.nodes[v][GA.Y_COORD] = -0.5 * k
    return g


def check_renaming(g, r):
    n = g.number_of_nodes()
    if sorted(r.nodes) != list(range(n)):
        raise Violation("node-set", f"canonicalized node set is not 0..{n-1}: {sorted(r.nodes)[:8]}")
    if r.number_of_edges() != g.number_of_edges():
        raise Violation("bond-count", f"{g.number_of_edges()} bonds became {r.number_of_edges()}")
    by_tag = {}
    for v, d in r.nodes(data=True):
        t = d.get(GA.X_COORD)
        if t in by_tag:
            raise Violation("bijection", "two canonical atoms carry the same tag")
        by_tag[t] = v
    f = {}
    for v, d in g.nodes(data=True):
        t = d[GA.X_COORD]
        if t not in by_tag:
            raise Violation("bijection", f"atom tagged {t} disappeared")
        f[v] = by_tag[t]
        a = {k: x for k, x in d.items() if k not in (GA.PARTITION, GA.EXPLORED)}
        b = {k: x for k, x in r.nodes[f[v]].items() if k not in (GA.PARTITION, GA.EXPLORED)}
        if a != b:
            raise Violation("atom-attributes", f"atom {v}->{f[v]}: {a} became {b}")
    for a, b, d in g.edges(data=True):
        if not r.has_edge(f[a], f[b]):
            raise Violation("bonds", f"bond {a}-{b} has no image")
        if dict(r.edges[f[a], f[b]]) != dict(d):
            raise Violation("bond-attributes", f"bond {a}-{b}: {dict(d)} became {dict(r.edges[f[a], f[b]])}")


def check(case, stats):
    pool = []
    snaps = []
    memo = {}
    uses = {}
    for mj, prod, order in zip(case["mols"], case["producers"], case["orders"]):
        g = make(mj, prod, order)
        pool.append(g)
        snaps.append(snapshot(g))

    def verify_pool(step):
        for k, (g, s) in enumerate(zip(pool, snaps)):
            if snapshot(g) != s:
                raise Violation("argument-mutated", f"after step {step} pool object {k} no longer equals its snapshot")

    for step, (op, idx) in enumerate(case["ops"]):
        i = idx % len(pool)
        g = pool[i]
        uses[i] = uses.get(i, 0) + 1
        if op == "canon":
            r = call("canonicalize", canonicalize_molecule, g)
            check_renaming(g, r)
            res = snapshot(r)
            if len(pool) < 8:
                pool.append(r)
                snaps.append(res)
        elif op == "ser":
            res = call("serialize", serialize_molecule, g)
        else:
            res = call("serialize", serialize_molecule, call("canonicalize", canonicalize_molecule, g))
        stats.evaluated()
        key = (op, i)
        if key in memo and memo[key] != res:
            raise Violation("repeatability", f"step {step}: {op} on pool object {i} returned a different result than before: {str(memo[key])[:120]} vs {str(res)[:120]}")
        memo[key] = res
        verify_pool(step)
    stats.label("history_len:%d" % min(len(case["ops"]), 12))
    if any(u >= 2 and pool[i].number_of_edges() >= 1 for i, u in uses.items()):
        stats.mark_nontrivial(case_digest(case), {"pool": [Mol.from_json(m).brief() for m in case["mols"]], "producers": case["producers"], "ops": case["ops"]})
