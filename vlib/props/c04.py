"""C04 - canonical numbering: same molecule gives the same labelled graph."""

from __future__ import annotations

from hypothesis import strategies as st

from .. import gens
from ..lib import GA, Violation, call, canonicalize_molecule, mol_to_graph
from ..mol import Mol, case_digest
from .c01 import describe, molfile_ok, route_for

ID = "C04"
RULE = (
    "case = abstract molecule x k listing transformations (as C01, graph and molfile routes); "
    "oracle: canonicalize(G) and canonicalize(pi(G)) both have node set 0..n-1, equal maps node -> "
    "(element symbol, atomic number, mass, rad, partition) and equal edge sets; non-identity data "
    "is not compared. Non-trivial = n>=2, the transformed description differs from the base, and "
    "the canonical relabelling is not the identity for at least one of the inputs."
)
MANIFEST = {
    "text": "Metamorphic search on the canonicalized graph itself (not just the string): two descriptions of one molecule must canonicalize to graphs with identical node->(element, mass, radical, class) maps and identical edge sets. Finds wrong use of the bliss permutation, label-dependent colours, relabelling by an inverse map. Cannot prove it.",
    "note": "Trusted: abstract model permute(); own renderers for the molfile route.",
    "technique": "property-based testing: metamorphic relation on canonicalize_molecule output across constructor / V3000 / V2000 / own TUCAN spelling (Hypothesis, 16 shards) + sweep over all 117 neighbouring element pairs",
}
ASSUMPTIONS = ["search, not proof"]


def budget(tier):
    return {"examples": 350 if tier == "quick" else 8000, "shards": 16, "wall": 150 if tier == "quick" else 3000}


@st.composite
def strategy_(draw, tier):
    mol = draw(st.one_of(gens.mols(tier), gens.mols(tier), gens.mols(tier), gens.mols(tier, wide=True)))
    n, m = len(mol["atoms"]), len(mol["bonds"])
    k = 2 if tier == "quick" else 4
    return {"mol": mol, "tfs": [draw(gens.listing(n, m)) for _ in range(k)],
            "route": draw(st.sampled_from(["graph", "graph", "graph", "v3000", "v2000", "tucan", "mixed"])), "style_seed": draw(st.integers(0, 1000))}


def strategy(tier):
    return strategy_(tier)


def view(c, n, sub):
    nodes = sorted(c.nodes)
    if nodes != list(range(n)):
        raise Violation(sub + ":node-set", f"canonical node set is not 0..{n-1}: {nodes[:10]}...")
    nm = {}
    for v in nodes:
        d = c.nodes[v]
        nm[v] = (d.get(GA.ELEMENT_SYMBOL), d.get(GA.ATOMIC_NUMBER), d.get(GA.MASS, 0) or 0, d.get(GA.RAD, 0) or 0, d.get(GA.PARTITION))
    return nm, {frozenset(e) for e in c.edges}


def check(case, stats):
    mol = Mol.from_json(case["mol"])
    n = mol.n
    route = case["route"] if (case["route"] == "mixed" or molfile_ok(mol, case["route"])) else "graph"
    ident = {"order": list(range(n)), "keys": list(range(1, n + 1)), "bond_order": list(range(mol.m)), "flips": [False] * mol.m}
    g0 = describe(mol, ident, route_for(route, -1, mol), case["style_seed"])
    c0 = call("canonicalize", canonicalize_molecule, g0)
    nm0, e0 = view(c0, n, "base")
    stats.evaluated()
    moved = list(c0.nodes) != list(g0.nodes)
    differs = False
    for k, tf in enumerate(case["tfs"]):
        pm = mol.permute(tf["pi"])
        g = describe(pm, tf, route_for(route, k, mol), case["style_seed"])
        c = call("canonicalize", canonicalize_molecule, g)
        nm, e = view(c, n, "permuted")
        stats.evaluated()
        if list(c.nodes) != list(g.nodes):
            moved = True
        if tf["pi"] != list(range(n)) or tf["order"] != ident["order"]:
            differs = True
        if nm != nm0:
            bad = next(v for v in range(n) if nm[v] != nm0[v])
            raise Violation("node-map", f"route={route}: canonical atom {bad} is {nm0[bad]} in one description and {nm[bad]} in the other (transformation #{k})")
        if e != e0:
            raise Violation("edge-set", f"route={route}: canonical edge sets differ: only-in-base={sorted(map(sorted, e0 - e))[:5]} only-in-other={sorted(map(sorted, e - e0))[:5]}")
    stats.label("family:" + mol.family.split(":")[0])
    stats.label("route:" + route)
    stats.maximum("max_atoms", n)
    if n >= 2 and differs and moved:
        cls = {v[4] for v in nm0.values()}
        if len(cls) < n:
            stats.label("partition_not_discrete")
        stats.mark_nontrivial(case_digest(case), {"mol": mol.brief(), "route": route, "canonical_classes": len(cls)})


def extra(ctx):
    """Finite sweep over the periodic table: for every pair of neighbouring elements (Z, Z+1)
    a small asymmetric molecule X(Y)2 / Y(X)2 is described once through the graph constructor
    (atomic numbers from the own table) and once as a TUCAN string written by own code
    (blocks of increasing Z by the own table); both descriptions must agree.  A transposition
    in an element table shows only when both elements occur together."""
    from ..lib import Violation as V
    from ..runner import Stats, bucket_of

    stats = Stats()
    failures = []
    n_cases = 0
    for z in range(1, 118):
        for centre, outer in ((z, z + 1), (z + 1, z)):
            mol = Mol.simple([centre, outer, outer], [(0, 1), (0, 2)], masses=[0, 0, 0], family="element-pair").to_json()
            tf = {"pi": [0, 1, 2], "order": [0, 1, 2], "bond_order": [0, 1], "flips": [False, False], "keys": [1, 2, 3], "post": "none"}
            case = {"mol": mol, "tfs": [tf, dict(tf, pi=[2, 0, 1], order=[1, 2, 0])], "route": "mixed", "style_seed": 0}
            n_cases += 1
            try:
                check(case, stats)
            except V as e:
                if len(failures) < 3:
                    failures.append({"sub": e.sub, "message": e.msg, "details": {}, "case": case, "bucket": list(bucket_of(e))})
    stats.label("element_pair_sweep_cases", n_cases)
    return {"failures": failures, "stats": stats.dump(), "info": {"element_pairs_swept": 117}}
