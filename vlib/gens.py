"""Hypothesis strategies for abstract molecules and for listing transformations.

Every random choice is a Hypothesis draw (large structures derive from a drawn integer
through random.Random(seed), a pure function of the draw), so cases replay and shrink.
All strategies return JSON-able dicts: {"atoms": [...], "bonds": [...], "family": str}.
"""

from __future__ import annotations

import glob
import itertools
import os
import random

from hypothesis import strategies as st

from .mol import Mol
from .ptable import COMMON_Z

REPO = os.environ.get("VERIF_REPO", "/repo")

# ------------------------------------------------------------------------ helpers


def boundary_ints(lo, hi, extra=()):
    """Boundary-biased integers in [lo, hi]."""
    pts = {lo, hi, lo + 1, hi - 1}
    p = 1
    while p <= hi * 10:
        for d in (-1, 0, 1):
            pts.add(p + d)
        p *= 10
    pts.update(extra)
    pts = sorted(x for x in pts if lo <= x <= hi)
    return st.one_of(st.sampled_from(pts), st.integers(lo, hi))


@st.composite
def perms(draw, n):
    if n <= 1:
        return list(range(n))
    if n <= 24:
        return list(draw(st.permutations(list(range(n)))))
    s = draw(st.integers(0, 2**32))
    p = list(range(n))
    random.Random(s).shuffle(p)
    return p


@st.composite
def bool_list(draw, n):
    if n <= 40:
        return draw(st.lists(st.booleans(), min_size=n, max_size=n))
    s = draw(st.integers(0, 2**32))
    r = random.Random(s)
    return [r.random() < 0.5 for _ in range(n)]


@st.composite
def unique_keys(draw, n):
    """Arbitrary unique positive integer keys (file indices / dict keys)."""
    mode = draw(st.sampled_from(["id", "id", "offset", "sparse", "shuffled"]))
    if mode == "id":
        return list(range(1, n + 1))
    if mode == "offset":
        o = draw(st.sampled_from([1, 9, 10, 99, 100, 998, 1000, 12345]))
        return list(range(o, o + n))
    if mode == "shuffled":
        p = draw(perms(n))
        return [x + 1 for x in p]
    s = draw(st.integers(0, 2**32))
    r = random.Random(s)
    return r.sample(range(1, max(4 * n, 1200)), n)


@st.composite
def palettes(draw, k_max=4):
    k = draw(st.integers(1, k_max))
    mode = draw(st.sampled_from(["common", "common", "all", "prefix", "adjacent"]))
    if mode == "adjacent":
        z0 = draw(st.integers(1, 116))
        return [z0, z0 + 1, z0 + 2][: max(2, min(k, 3))]
    if mode == "common":
        base = COMMON_Z
    elif mode == "prefix":
        # symbols sharing first letters / symbol order != Z order
        base = [6, 17, 55, 27, 112, 20, 1, 2, 72, 80, 67, 108, 7, 11, 41, 10, 5, 35, 56, 83]
    else:
        base = list(range(1, 119))
    return draw(st.lists(st.sampled_from(base), min_size=k, max_size=k, unique=True))


def label_values(z, wide):
    if z == 1 and not wide:
        # hydrogen: deuterium and tritium (D / T symbols in molfiles)
        return [0, 0, 0, 2, 3, 2], [0, 0, 0, 0, 0, 1, 2, 3]
    return _label_values(z, wide)


def _label_values(z, wide):
    # few distinct values so that equal labels on several atoms are common
    masses = [0, 0, 0, 0, 2 * z + 1, 2 * z + 2] if not wide else [0, 0, 0, 1, 1, 2, 2, 3, 10, 2 * z + 1, 999, 1000, 1000, 1001, 10**9]
    rads = [0, 0, 0, 0, 0, 1, 2, 3] if not wide else [0, 0, 0, 1, 2, 3, 4, 4, 5, 6, 7, 8, 9, 10, 10, 11, 20, 100, 10**9]
    return masses, rads


@st.composite
def decorate(draw, zs, edges, family, wide=False, label_mode=None):
    """Attach isotope / radical labels, charges, coordinates and bond types."""
    n = len(zs)
    mode = label_mode or draw(st.sampled_from(["none", "one", "sparse", "sparse", "dense"]))
    masses = [0] * n
    rads = [0] * n
    if mode == "one" and n:
        i = draw(st.integers(0, n - 1))
        mv, rv = label_values(zs[i], wide)
        if draw(st.booleans()):
            masses[i] = [m for m in mv if m][0]
        else:
            rads[i] = 2
        if draw(st.integers(0, 3)) == 0:
            masses[i] = [m for m in mv if m][0]
            rads[i] = 1
    elif mode in ("sparse", "dense"):
        if n <= 60:
            for i in range(n):
                mv, rv = label_values(zs[i], wide)
                if mode == "dense" or draw(st.integers(0, 3)) == 0:
                    masses[i] = draw(st.sampled_from(mv))
                    rads[i] = draw(st.sampled_from(rv))
        else:
            r = random.Random(draw(st.integers(0, 2**32)))
            for i in range(n):
                mv, rv = label_values(zs[i], wide)
                if mode == "dense" or r.random() < 0.1:
                    masses[i] = r.choice(mv)
                    rads[i] = r.choice(rv)
    nonid = draw(st.sampled_from(["plain", "plain", "rich"]))
    atoms = []
    if nonid == "plain" or n > 60:
        for i in range(n):
            atoms.append([zs[i], masses[i], rads[i], 0, float(i), 0.0, 0.0])
        bonds = [[i, j, 1] for i, j in edges]
    else:
        for i in range(n):
            chg = draw(st.sampled_from([0, 0, 0, 1, -1, 2, -3, 15, -15]))
            atoms.append([zs[i], masses[i], rads[i], chg, float(i), draw(st.sampled_from([0.0, 1.5, -2.25])), 0.0])
        bonds = [[i, j, draw(st.sampled_from([1, 1, 2, 3, 4, 9, 10]))] for i, j in edges]
    return {"atoms": atoms, "bonds": bonds, "family": family}


# ------------------------------------------------------------------------ families


@st.composite
def fam_er(draw, max_n=14, wide=False):
    n = draw(st.integers(1, max_n))
    pal = draw(palettes())
    zs = [pal[0]] * n if len(pal) == 1 else draw(st.lists(st.sampled_from(pal), min_size=n, max_size=n))
    pairs = list(itertools.combinations(range(n), 2))
    d = draw(st.sampled_from([1, 2, 3, 5, 9]))
    if len(pairs) <= 120:
        bits = draw(st.lists(st.integers(0, d), min_size=len(pairs), max_size=len(pairs)))
        edges = [p for p, b in zip(pairs, bits) if b == 0]
    else:
        r = random.Random(draw(st.integers(0, 2**32)))
        p = min(1.0, draw(st.sampled_from([1.0, 2.0, 3.0, 5.0])) / n)
        edges = [pr for pr in pairs if r.random() < p]
    return draw(decorate(zs, edges, "er", wide=wide))


def _cycle(n):
    return [(i, (i + 1) % n) for i in range(n)] if n >= 3 else [(0, 1)][: n - 1]


def _circulant(n, ks):
    e = set()
    for i in range(n):
        for k in ks:
            j = (i + k) % n
            if i != j:
                e.add((min(i, j), max(i, j)))
    return sorted(e)


def _hypercube(k):
    n = 1 << k
    return n, [(i, i ^ (1 << b)) for i in range(n) for b in range(k) if i < i ^ (1 << b)]


def _petersen():
    e = [(i, (i + 1) % 5) for i in range(5)]
    e += [(i, i + 5) for i in range(5)]
    e += [(5 + i, 5 + (i + 2) % 5) for i in range(5)]
    return 10, e


def _prism(k):
    e = [(i, (i + 1) % k) for i in range(k)] + [(k + i, k + (i + 1) % k) for i in range(k)]
    e += [(i, k + i) for i in range(k)]
    return 2 * k, sorted({(min(a, b), max(a, b)) for a, b in e if a != b})


def _moebius(k):
    n = 2 * k
    e = _cycle(n) + [(i, i + k) for i in range(k)]
    return n, sorted({(min(a, b), max(a, b)) for a, b in e})


def _icosahedron():
    e = []
    for i in range(5):
        e += [(0, 1 + i), (1 + i, 1 + (i + 1) % 5), (11, 6 + i), (6 + i, 6 + (i + 1) % 5)]
        e += [(1 + i, 6 + i), (1 + i, 6 + (i + 1) % 5)]
    return 12, sorted({(min(a, b), max(a, b)) for a, b in e})


def _cuboctahedron():
    # line graph of the cube
    n, ce = _hypercube(3)
    e = []
    for a, b in itertools.combinations(range(len(ce)), 2):
        if set(ce[a]) & set(ce[b]):
            e.append((a, b))
    # cuboctahedron = medial graph; line graph of Q3 is 4-regular on 12 vertices
    return len(ce), e


def _complete(n):
    return list(itertools.combinations(range(n), 2))


def _complete_bipartite(a, b):
    return [(i, a + j) for i in range(a) for j in range(b)]


def _copies(n0, e0, k):
    e = []
    for c in range(k):
        e += [(a + c * n0, b + c * n0) for a, b in e0]
    return n0 * k, e


def skeleton_graph(name, p):
    if name == "cycle":
        return p, _cycle(p)
    if name == "complete":
        return p, _complete(p)
    if name == "bip":
        a, b = p
        return a + b, _complete_bipartite(a, b)
    if name == "cube":
        return _hypercube(p)
    if name == "petersen":
        return _petersen()
    if name == "prism":
        return _prism(p)
    if name == "moebius":
        return _moebius(p)
    if name == "circulant":
        n, k = p
        return n, _circulant(n, [1, k])
    if name == "icosahedron":
        return _icosahedron()
    if name == "cuboctahedron":
        return _cuboctahedron()
    if name == "star":
        return p + 1, [(0, i + 1) for i in range(p)]
    if name == "copies":
        base, k = p
        n0, e0 = skeleton_graph(*base)
        return _copies(n0, e0, k)
    if name == "isolated":
        return p, []
    if name == "core_leaves":
        # complete core of p atoms, one terminal atom on each (dense core + terminal atoms)
        return 2 * p, _complete(p) + [(i, p + i) for i in range(p)]
    raise ValueError(name)


@st.composite
def fam_skeleton(draw, big=False):
    name = draw(
        st.sampled_from(
            ["cycle", "complete", "bip", "cube", "petersen", "prism", "moebius", "circulant",
             "icosahedron", "cuboctahedron", "star", "copies", "isolated", "core_leaves"]
        )
    )
    hi = 24 if big else 10
    if name == "cycle":
        p = draw(st.integers(3, hi))
    elif name == "complete":
        p = draw(st.integers(2, 8 if not big else 12))
    elif name == "bip":
        p = (draw(st.integers(1, 5)), draw(st.integers(1, 5)))
    elif name == "cube":
        p = draw(st.integers(2, 4 if big else 3))
    elif name in ("prism", "moebius"):
        p = draw(st.integers(3, hi // 2))
    elif name == "circulant":
        n = draw(st.integers(5, hi))
        p = (n, draw(st.integers(2, n // 2)))
    elif name == "star":
        p = draw(st.integers(2, hi))
    elif name == "isolated":
        p = draw(st.integers(1, hi))
    elif name == "core_leaves":
        p = draw(st.integers(3, 16))
    elif name == "copies":
        base = draw(st.sampled_from([("cycle", 3), ("cycle", 4), ("cycle", 5), ("cycle", 6), ("complete", 2),
                                     ("complete", 4), ("star", 3), ("bip", (2, 3)), ("isolated", 1), ("prism", 3)]))
        p = (base, draw(st.integers(2, 4)))
    else:
        p = None
    n, edges = skeleton_graph(name, p)
    z = draw(st.sampled_from([6, 6, 6, 5, 7, 14, 15, 26, 1, 118]))
    zs = [z] * n
    if name == "core_leaves":
        zs = [z] * p + [draw(st.sampled_from([17, 1, 9]))] * p
    if name == "bip" and draw(st.booleans()):
        z2 = draw(st.sampled_from([1, 8, 17, 9]))
        zs = [z] * p[0] + [z2] * p[1]
    mode = draw(st.sampled_from(["none", "one", "one", "sparse", "sparse", "dense"]))
    return draw(decorate(zs, edges, "skeleton:" + name, label_mode=mode))


@st.composite
def fam_hubs(draw):
    """Two hub atoms of very high degree (beyond any coordination number in the corpus) that
    differ only in a few neighbours of the lowest-ranking kind."""
    k = draw(st.sampled_from([7, 8, 9, 11, 12, 13, 14, 16, 20, 30]))
    hub = draw(st.sampled_from([57, 26, 92, 6]))
    leaf = draw(st.sampled_from([9, 17, 8]))
    a = draw(st.integers(0, 2))
    b = draw(st.integers(0, 3))
    joined = draw(st.booleans())
    zs, edges = [hub, hub], []
    for h, extra in ((0, a), (1, b)):
        for _ in range(k):
            zs.append(leaf)
            edges.append((h, len(zs) - 1))
        for _ in range(extra):
            zs.append(1)
            edges.append((h, len(zs) - 1))
    if joined:
        edges.append((0, 1))
    return draw(decorate(zs, edges, f"skeleton:hubs{k}", label_mode=draw(st.sampled_from(["none", "none", "one"]))))


# ---- WL-hard graphs ---------------------------------------------------------------


def cfi(base_n, base_edges, twists):
    """Cai-Fuerer-Immerman construction over a base graph; `twists` = set of base edge
    indices whose connection is crossed.  Parity of |twists| decides the isomorphism class
    for a connected base graph."""
    inc = [[] for _ in range(base_n)]
    for ei, (u, v) in enumerate(base_edges):
        inc[u].append(ei)
        inc[v].append(ei)
    idx = {}
    nodes = 0

    def node(key):
        nonlocal nodes
        if key not in idx:
            idx[key] = nodes
            nodes += 1
        return idx[key]

    edges = []
    for v in range(base_n):
        es = inc[v]
        for r in range(0, len(es) + 1, 2):
            for sub in itertools.combinations(es, r):
                mnode = node(("m", v, sub))
                for e in es:
                    edges.append((mnode, node(("a", v, e, 1 if e in sub else 0))))
    for ei, (u, v) in enumerate(base_edges):
        for b in (0, 1):
            bb = 1 - b if ei in twists else b
            edges.append((node(("a", u, ei, b)), node(("a", v, ei, bb))))
    kinds = [None] * nodes
    for key, i in idx.items():
        kinds[i] = key
    return nodes, edges, kinds


def shrikhande():
    v = [(a, b) for a in range(4) for b in range(4)]
    d = {(1, 0), (3, 0), (0, 1), (0, 3), (1, 1), (3, 3)}
    e = [(i, j) for i, j in itertools.combinations(range(16), 2)
         if ((v[i][0] - v[j][0]) % 4, (v[i][1] - v[j][1]) % 4) in d]
    return 16, e


def rook4():
    v = [(a, b) for a in range(4) for b in range(4)]
    e = [(i, j) for i, j in itertools.combinations(range(16), 2) if v[i][0] == v[j][0] or v[i][1] == v[j][1]]
    return 16, e


def paley(q):
    qr = {(x * x) % q for x in range(1, q)}
    return q, [(i, j) for i, j in itertools.combinations(range(q), 2) if (i - j) % q in qr]


def random_regular(n, d, rnd):
    for _ in range(200):
        pts = [v for v in range(n) for _ in range(d)]
        rnd.shuffle(pts)
        es = set()
        ok = True
        for a, b in zip(pts[::2], pts[1::2]):
            if a == b or (min(a, b), max(a, b)) in es:
                ok = False
                break
            es.add((min(a, b), max(a, b)))
        if ok:
            return sorted(es)
    return _prism(n // 2)[1]


_CFI_FILES = None


def cfi_files():
    global _CFI_FILES
    if _CFI_FILES is None:
        out = []
        for p in sorted(glob.glob(os.path.join(REPO, "tests/cfi_rigid_benchmark_graphs/*.col"))):
            try:
                n = None
                edges = []
                for line in open(p):
                    t = line.split()
                    if not t:
                        continue
                    if t[0] == "p":
                        n = int(t[2])
                    elif t[0] == "e":
                        edges.append((int(t[1]) - 1, int(t[2]) - 1))
                if n:
                    out.append((os.path.basename(p), n, edges))
            except (OSError, ValueError):
                continue
        _CFI_FILES = out
    return _CFI_FILES


CFI_BASES = {
    "K4": (4, _complete(4)),
    "K33": (6, _complete_bipartite(3, 3)),
    "prism3": _prism(3),
    "cube": _hypercube(3),
    "C5xK2": _prism(5),
    "petersen": _petersen(),
}


@st.composite
def fam_wlhard(draw, max_file_n=216):
    kind = draw(st.sampled_from(["cfi", "cfi", "srg", "paley", "cubic", "file"]))
    if kind == "cfi":
        bname = draw(st.sampled_from(sorted(CFI_BASES)))
        bn, be = CFI_BASES[bname]
        tw = draw(st.lists(st.integers(0, len(be) - 1), max_size=3, unique=True))
        n, edges, _ = cfi(bn, be, set(tw))
        fam = f"wlhard:cfi:{bname}:t{len(tw) % 2}"
    elif kind == "srg":
        which = draw(st.sampled_from(["shrikhande", "rook4"]))
        n, edges = shrikhande() if which == "shrikhande" else rook4()
        fam = "wlhard:" + which
    elif kind == "paley":
        q = draw(st.sampled_from([5, 13, 17, 29]))
        n, edges = paley(q)
        fam = f"wlhard:paley{q}"
    elif kind == "cubic":
        n = 2 * draw(st.integers(5, 20))
        edges = random_regular(n, 3, random.Random(draw(st.integers(0, 2**32))))
        fam = "wlhard:cubic"
    else:
        files = [f for f in cfi_files() if f[1] <= max_file_n]
        if not files:
            n, edges = shrikhande()
            fam = "wlhard:shrikhande"
        else:
            name, n, edges = draw(st.sampled_from(files))
            fam = "wlhard:file:" + name
    z = draw(st.sampled_from([6, 6, 14, 5]))
    mode = draw(st.sampled_from(["none", "none", "one", "sparse"]))
    return draw(decorate([z] * n, edges, fam, label_mode=mode))


# ---- chemistry-like ---------------------------------------------------------------

_VALENCE = {6: 4, 7: 3, 8: 2, 16: 6, 15: 5, 14: 4, 5: 3, 26: 6, 29: 4, 30: 4, 78: 6}


@st.composite
def fam_chem(draw, max_heavy=12):
    ncomp = draw(st.sampled_from([1, 1, 1, 2, 2, 3, 4]))
    zs, edges = [], []
    twin = draw(st.booleans()) if ncomp >= 2 else False
    comp0 = None
    for c in range(ncomp):
        if twin and c == 1 and comp0 is not None:
            czs, ces = comp0
        else:
            k = draw(st.integers(1, max(1, max_heavy // ncomp)))
            czs = draw(st.lists(st.sampled_from([6, 6, 6, 6, 7, 8, 16, 15, 14, 5, 26, 30]), min_size=k, max_size=k))
            ces = []
            deg = [0] * k
            for v in range(1, k):
                cands = [u for u in range(v) if deg[u] < _VALENCE[czs[u]]]
                if not cands:
                    continue
                u = cands[draw(st.integers(0, len(cands) - 1))]
                ces.append((u, v))
                deg[u] += 1
                deg[v] += 1
            nrings = draw(st.integers(0, 2))
            for _ in range(nrings):
                if k < 3:
                    break
                a = draw(st.integers(0, k - 1))
                b = draw(st.integers(0, k - 1))
                if a != b and (min(a, b), max(a, b)) not in {(min(x, y), max(x, y)) for x, y in ces} \
                        and deg[a] < _VALENCE[czs[a]] and deg[b] < _VALENCE[czs[b]]:
                    ces.append((a, b))
                    deg[a] += 1
                    deg[b] += 1
            # saturate with H / halogens
            hmode = draw(st.sampled_from(["none", "H", "H", "mixed"]))
            czs = list(czs)
            if hmode != "none":
                for v in range(k):
                    free = min(3, _VALENCE[czs[v]] - deg[v]) if czs[v] in (6, 7, 8, 14, 5) else 0
                    for _ in range(max(0, free)):
                        hz = 1 if hmode == "H" else draw(st.sampled_from([1, 1, 9, 17, 35]))
                        czs.append(hz)
                        ces.append((v, len(czs) - 1))
            if c == 0:
                comp0 = (list(czs), list(ces))
        off = len(zs)
        zs += czs
        edges += [(a + off, b + off) for a, b in ces]
    fam = "chem" + (f":{ncomp}comp" if ncomp > 1 else "") + (":twin" if twin else "")
    return draw(decorate(zs, edges, fam))


# ---- many components --------------------------------------------------------------


def _cubic8():
    """The five connected cubic graphs on 8 vertices share degree sequence and 1-WL colours;
    two of them: the cube and the 'twisted' cube (Moebius-ladder-like C8 with chords)."""
    cube = _hypercube(3)[1]
    moeb = _moebius(4)[1]
    # cuneane skeleton
    cun = [(0, 1), (1, 2), (2, 3), (3, 0), (0, 4), (1, 5), (2, 6), (3, 7), (4, 5), (6, 7), (4, 6), (5, 7)]
    return [(8, cube), (8, moeb), (8, cun)]


WL_TWINS = [
    [_prism(3), (6, _complete_bipartite(3, 3))],
    _cubic8(),
    [(6, _cycle(6)), _copies(3, _cycle(3), 2)],
    [(7, _cycle(7)), (7, _cycle(3) + [(a + 3, b + 3) for a, b in _cycle(4)])],
]
FILLERS = [
    ([8, 1, 1], [(0, 1), (0, 2)]),
    ([11], []),
    ([17], []),
    ([1, 17], [(0, 1)]),
    ([6, 8, 8], [(0, 1), (0, 2)]),
    ([7, 1, 1, 1], [(0, 1), (0, 2), (0, 3)]),
    ([2], []),
]


@st.composite
def fam_multi(draw, max_components=40):
    """Many-component molecules (threshold principle: several times the corpus maximum of
    8 components), containing non-isomorphic fragments that colour refinement cannot tell
    apart, identical fragments several times, and small fillers."""
    k = draw(boundary_ints(2, max_components, extra=(8, 9, 12, 13, 14, 16, 17, 32, 33)))
    if draw(st.integers(0, 11)) == 0:
        k = draw(st.sampled_from([480, 520, 600]))  # > 1000 atoms in hundreds of components
    zs, edges = [], []
    ncomp = 0

    def add(fz, fe):
        nonlocal ncomp
        off = len(zs)
        zs.extend(fz)
        edges.extend((a + off, b + off) for a, b in fe)
        ncomp += 1

    z = draw(st.sampled_from([6, 6, 14, 5]))
    for _ in range(draw(st.integers(0, 2))):
        group = draw(st.sampled_from(WL_TWINS))
        members = draw(st.lists(st.sampled_from(group), min_size=2, max_size=3))
        for n0, e0 in members:
            add([z] * n0, e0)
    while ncomp < k:
        fz, fe = draw(st.sampled_from(FILLERS))
        add(fz, fe)
    mode = draw(st.sampled_from(["none", "none", "one", "sparse"]))
    return draw(decorate(zs, edges, f"multi:{ncomp}comp", label_mode=mode))


# ---- deep refinement --------------------------------------------------------------


@st.composite
def fam_deep(draw, max_n=300):
    kind = draw(st.sampled_from(["path", "path_end", "ring1", "caterpillar", "comb", "polymer"]))
    n = draw(boundary_ints(4, max_n, extra=(26, 27, 50, 120)))
    zs, edges = [], []
    masses = None
    if kind in ("path", "path_end"):
        zs = [6] * n
        edges = [(i, i + 1) for i in range(n - 1)]
        if kind == "path_end":
            masses = [0] * n
            masses[draw(st.sampled_from([0, n - 1, n // 2, n // 3]))] = 13
    elif kind == "ring1":
        n = max(n, 3)
        zs = [6] * n
        edges = _cycle(n)
        masses = [0] * n
        masses[0] = 14
    elif kind == "caterpillar":
        k = max(2, n // 2)
        zs = [6] * k
        edges = [(i, i + 1) for i in range(k - 1)]
        r = random.Random(draw(st.integers(0, 2**32)))
        for i in range(k):
            if r.random() < 0.4:
                zs.append(r.choice([1, 9, 17]))
                edges.append((i, len(zs) - 1))
    elif kind == "comb":
        k = max(2, n // 2)
        zs = [6] * k + [8] * k
        edges = [(i, i + 1) for i in range(k - 1)] + [(i, k + i) for i in range(k)]
        zs[draw(st.integers(0, k - 1))] = 7
    else:  # polymer -CH2- with H
        k = max(2, n // 3)
        zs = [6] * k
        edges = [(i, i + 1) for i in range(k - 1)]
        for i in range(k):
            for _ in range(2):
                zs.append(1)
                edges.append((i, len(zs) - 1))
        zs[0] = 8
    n = len(zs)
    atoms = [[zs[i], masses[i] if masses else 0, 0, 0, float(i), 0.0, 0.0] for i in range(n)]
    return {"atoms": atoms, "bonds": [[a, b, 1] for a, b in edges], "family": "deep:" + kind}


# ---- label pairs that collide under packed / truncated colour codes -----------------


@st.composite
def fam_collide(draw):
    """Two atoms in symmetric positions of a small skeleton whose (Z, mass, rad) labels are
    different but would coincide if the three fields were packed into one number with too narrow
    fields (decimal or binary, e.g. rad 10+r vs mass m+1, mass 1000+m vs the next element) or
    truncated.  Everything else is unlabelled, so confusing the two makes the molecule symmetric."""
    b = draw(st.sampled_from([4, 8, 10, 16, 100, 128, 256, 1000, 1024, 4096, 65536]))
    m0 = draw(st.sampled_from([0, 0, 1, 2, 12]))
    r0 = draw(st.sampled_from([0, 0, 1, 2, 3]))
    z = draw(st.sampled_from([6, 6, 1, 7, 26, 117]))
    kind = draw(st.sampled_from(["rad_overflow", "mass_overflow", "rad_overflow"]))
    if kind == "rad_overflow":
        la, lb = (z, m0, b + r0), (z, m0 + 1, r0)
    else:
        la, lb = (z, b + m0, r0), (z + 1, m0, r0)
    shape = draw(st.sampled_from(["pair", "bonded", "path3", "path4", "ring4", "ring6", "star"]))
    fill = z
    if shape == "pair":
        zs, edges, pa, pb = [], [], 0, 1
        n = 2
    elif shape == "bonded":
        n, edges, pa, pb = 2, [(0, 1)], 0, 1
    elif shape == "path3":
        n, edges, pa, pb = 3, [(0, 1), (1, 2)], 0, 2
    elif shape == "path4":
        n, edges, pa, pb = 4, [(0, 1), (1, 2), (2, 3)], draw(st.sampled_from([0, 1])), None
        pb = 3 - pa
    elif shape == "ring4":
        n, edges, pa, pb = 4, _cycle(4), 0, draw(st.sampled_from([1, 2]))
    elif shape == "ring6":
        n, edges, pa, pb = 6, _cycle(6), 0, draw(st.sampled_from([1, 2, 3]))
    else:
        n, edges, pa, pb = 4, [(0, 1), (0, 2), (0, 3)], 1, 2
    atoms = [[fill, 0, 0, 0, float(i), 0.0, 0.0] for i in range(n)]
    atoms[pa][:3] = list(la)
    atoms[pb][:3] = list(lb)
    return {"atoms": atoms, "bonds": [[a, c, 1] for a, c in edges], "family": f"collide:{kind}:{b}"}


# ---- four-digit indices at low cost ------------------------------------------------


@st.composite
def fam_bigcheap(draw):
    """~1000..1300 atoms (indices and counts cross 999/1000) as a random tree over a few
    elements: refinement is discrete after a handful of rounds, so the pipeline costs ~0.1 s."""
    # mostly just across the 999/1000 border; sometimes far beyond it, so that index
    # DIFFERENCES above 1000 occur as well
    n = draw(st.sampled_from([999, 1000, 1001, 1023, 1024, 1100, 1250, 2100, 3000]))
    r = random.Random(draw(st.integers(0, 2**32)))
    pal = draw(st.sampled_from([[6, 7, 8, 16], [6, 1, 8], [14, 8], [6, 17, 55, 27]]))
    zs = [r.choice(pal) for _ in range(n)]
    span = draw(st.sampled_from([3, 30, 300]))
    edges = [(r.randint(max(0, i - span), i - 1), i) for i in range(1, n)]
    masses = [0] * n
    rads = [0] * n
    for _ in range(draw(st.integers(0, 4))):
        i = r.randrange(n)
        masses[i] = 2 * zs[i] + 1
        if r.random() < 0.5:
            rads[i] = 2
    atoms = [[zs[i], masses[i], rads[i], 0, float(i), 0.0, 0.0] for i in range(n)]
    return {"atoms": atoms, "bonds": [[a, b, 1] for a, b in edges], "family": "bigcheap"}


# ---- long refinement relative to size ---------------------------------------------

_SLOW = None


def slow_catalogue():
    """Catalogue of small graphs whose colour refinement needs far more than n/2 rounds
    (found by tools/find_slow_wl.py, committed under catalogue/)."""
    global _SLOW
    if _SLOW is None:
        import json

        path = os.path.join(os.path.dirname(os.path.dirname(os.path.abspath(__file__))), "catalogue", "long_refinement.json")
        try:
            _SLOW = json.load(open(path))
        except (OSError, ValueError):
            _SLOW = []
    return _SLOW


@st.composite
def fam_slowwl(draw):
    cat = slow_catalogue()
    if not cat:
        return draw(fam_deep(60))
    g = draw(st.sampled_from(cat))
    z = draw(st.sampled_from([6, 15, 14, 5, 7]))
    atoms = [[z, 0, 0, 0, float(i), 0.0, 0.0] for i in range(g["n"])]
    return {"atoms": atoms, "bonds": [[a, b, 1] for a, b in g["edges"]], "family": f"deep:slowwl:r{g['rounds']}of{g['n']}"}


# ---- corpus -----------------------------------------------------------------------

_CORPUS = None


def corpus_paths():
    global _CORPUS
    if _CORPUS is None:
        _CORPUS = sorted(glob.glob(os.path.join(REPO, "tests/molfiles/*/*.mol")))
    return _CORPUS


def mol_from_graph(g, family):
    """Re-abstract a tucan graph (used only for seeds; never as an oracle)."""
    idx = {v: k for k, v in enumerate(g.nodes)}
    atoms = []
    for v, d in g.nodes(data=True):
        atoms.append([
            d["atomic_number"], d.get("mass", 0) or 0, d.get("rad", 0) or 0, d.get("chg", 0) or 0,
            float(d.get("x_coord", 0.0)), float(d.get("y_coord", 0.0)), float(d.get("z_coord", 0.0)),
        ])
    bonds = [[idx[a], idx[b], d.get("bond_type", 1)] for a, b, d in g.edges(data=True)]
    return {"atoms": atoms, "bonds": bonds, "family": family}


_CORPUS_CACHE = {}


@st.composite
def fam_corpus(draw, max_n=200):
    paths = corpus_paths()
    if not paths:
        return draw(fam_er())
    p = draw(st.sampled_from(paths))
    if p not in _CORPUS_CACHE:
        try:
            from tucan.io import graph_from_file

            g = graph_from_file(p)
            _CORPUS_CACHE[p] = mol_from_graph(g, "corpus:" + os.path.basename(p)[:-4])
        except Exception:  # noqa: BLE001 - corpus is only a seed source
            _CORPUS_CACHE[p] = None
    m = _CORPUS_CACHE[p]
    if m is None or len(m["atoms"]) > max_n:
        return draw(fam_er())
    return m


# ------------------------------------------------------------------------ mixtures


def mols(tier="quick", families=("er", "skeleton", "wlhard", "chem", "deep", "corpus", "multi", "bigcheap", "collide"), wide=False):
    q = tier == "quick"
    table = {
        "er": [fam_er(14 if q else 20, wide=wide), fam_er(8, wide=wide), fam_er(40 if q else 80, wide=wide), fam_er(130 if q else 400, wide=wide)],
        "skeleton": [fam_skeleton(big=not q), fam_skeleton(big=not q), fam_hubs()],
        "wlhard": [fam_wlhard(216 if q else 432)],
        "chem": [fam_chem(12 if q else 30), fam_chem(6)],
        "deep": [fam_deep(300 if q else 900), fam_slowwl()],
        "corpus": [fam_corpus(120 if q else 400)],
        "multi": [fam_multi(40 if q else 120)],
        "bigcheap": [fam_bigcheap()],
        "collide": [fam_collide()],
    }
    parts = []
    for f in families:
        parts.extend(table[f])
    return st.one_of(parts)


@st.composite
def listing(draw, n, m):
    """One relabelling / listing transformation of a molecule with n atoms, m bonds."""
    return {
        "pi": draw(perms(n)),
        "order": draw(perms(n)),
        "bond_order": draw(perms(m)),
        "flips": draw(bool_list(m)),
        "keys": draw(unique_keys(n)),
        # what happens to the constructed graph before it is handed to the library: nothing,
        # a relabelling that leaves the iteration order alone (labels != positions), or a
        # first canonicalization whose output (labels != positions) is used as the description
        "post": draw(st.sampled_from(["none", "none", "relabel", "recanon", "reuse"])),
    }
