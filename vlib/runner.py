"""Common runner: tiers, seeds, sharding, budgeted shrinking, replay, evidence.

A property module provides
    ID, RULE (str), ASSUMPTIONS (list[str])
    strategy(tier)            -> Hypothesis strategy of JSON-able case dicts
    check(case, stats)        -> None, raises lib.Violation when the property fails
    budget(tier)              -> {"examples": per-shard count, "shards": n, "wall": seconds}
  optional
    extra(ctx)                -> list of failure dicts (own phases: enumeration, fuzzing)
    describe(case)            -> short sample rendering
"""

from __future__ import annotations

import argparse
import hashlib
import importlib
import json
import multiprocessing as mp
import os
import sys
import time
import traceback

ROOT = os.path.dirname(os.path.dirname(os.path.abspath(__file__)))
# scratch runs (sensitivity studies against a modified copy of the repository) write their
# evidence / replays elsewhere so that the committed evidence only ever comes from /repo
OUT = os.environ.get("VERIF_OUT") or ROOT
DEPS = os.path.join(ROOT, ".deps")
if os.path.isdir(DEPS) and DEPS not in sys.path:
    sys.path.append(DEPS)

from .mol import case_digest  # noqa: E402


class Stats:
    """Per-shard counters; merged in the parent."""

    def __init__(self):
        self.evaluations = 0
        self.labels = {}
        self.nontrivial = set()
        self.samples = []
        self.maxima = {}
        self.frozen = False
        self.skipped_budget = 0
        self.suppressed = 0

    def evaluated(self, k=1):
        if not self.frozen:
            self.evaluations += k

    def label(self, name, k=1):
        if not self.frozen:
            self.labels[name] = self.labels.get(name, 0) + k

    def maximum(self, name, v):
        if not self.frozen and v > self.maxima.get(name, -1):
            self.maxima[name] = v

    def mark_nontrivial(self, digest, sample=None):
        if self.frozen:
            return
        if digest not in self.nontrivial:
            self.nontrivial.add(digest)
            if sample is not None and len(self.samples) < 4:
                self.samples.append(sample)

    def dump(self):
        return {
            "evaluations": self.evaluations,
            "labels": self.labels,
            "nontrivial": sorted(self.nontrivial),
            "samples": self.samples,
            "maxima": self.maxima,
            "skipped_budget": self.skipped_budget,
            "suppressed": self.suppressed,
        }


def merge_stats(dumps):
    out = {
        "evaluations": 0,
        "labels": {},
        "nontrivial": set(),
        "samples": [],
        "maxima": {},
        "skipped_budget": 0,
        "suppressed": 0,
    }
    for d in dumps:
        out["evaluations"] += d["evaluations"]
        out["skipped_budget"] += d["skipped_budget"]
        out["suppressed"] += d["suppressed"]
        for k, v in d["labels"].items():
            out["labels"][k] = out["labels"].get(k, 0) + v
        for k, v in d["maxima"].items():
            out["maxima"][k] = max(out["maxima"].get(k, -1), v)
        out["nontrivial"].update(d["nontrivial"])
        for s in d["samples"]:
            if len(out["samples"]) < 8:
                out["samples"].append(s)
    return out


def shard_seed(seed, pid, k):
    h = hashlib.sha256(f"{seed}|{pid}|{k}".encode()).digest()
    return int.from_bytes(h[:8], "big")


class _StopSearch(BaseException):
    """Raised inside the property body to end Hypothesis' shrinking once its budget is spent."""


def bucket_of(v):
    return (v.sub, v.details.get("exception"), v.details.get("frame"))


def drive(prop, tier, hseed, n_examples, stats, wall, strategy=None, check=None,
          shrink_budget=None, suppress=()):
    """Run one Hypothesis search; returns a failure dict or None."""
    import hypothesis
    from hypothesis import HealthCheck, Phase, given, settings

    from .lib import Violation

    strategy = strategy if strategy is not None else prop.strategy(tier)
    check = check if check is not None else prop.check
    if shrink_budget is None:
        shrink_budget = getattr(prop, "SHRINK_BUDGET", None) or (45.0 if tier == "quick" else 240.0)
    t0 = time.time()
    st = {"first_fail": None, "seen": set(), "last": None}

    @hypothesis.seed(hseed)
    @settings(
        max_examples=n_examples,
        database=None,
        deadline=None,
        derandomize=False,
        report_multiple_bugs=False,
        suppress_health_check=list(HealthCheck),
        phases=[Phase.generate, Phase.shrink],
        print_blob=False,
    )
    @given(strategy)
    def test(case):
        if st["first_fail"] is None and time.time() - t0 > wall:
            stats.skipped_budget += 1
            return
        key = None
        if st["first_fail"] is not None and time.time() - st["first_fail"] > shrink_budget:
            # budgeted shrink: abandon the engine, keep the smallest failing case seen so far
            raise _StopSearch()
        try:
            check(case, stats)
        except Violation as v:
            if bucket_of(v) in suppress:
                stats.suppressed += 1
                return
            key = key or case_digest(case)
            if st["first_fail"] is None:
                st["first_fail"] = time.time()
                stats.frozen = True
            st["seen"].add(key)
            size = len(json.dumps(case, default=repr))
            if st["last"] is None or size <= st["last_size"]:
                st["last"] = (case, v)
                st["last_size"] = size
            raise

    try:
        test()
    except Violation:
        pass
    except _StopSearch:
        pass
    except BaseException as e:  # hypothesis may wrap (Flaky etc.)
        if st["last"] is None:
            raise
        if type(e).__name__ not in ("Flaky", "FlakyFailure", "FlakyStrategyDefinition"):
            if not isinstance(e, Exception):
                raise
    if st["last"] is None:
        return None
    case, v = st["last"]
    return {
        "sub": v.sub,
        "message": v.msg,
        "details": _jsonable(v.details),
        "case": case,
        "bucket": list(bucket_of(v)),
    }


def _jsonable(o):
    try:
        json.dumps(o)
        return o
    except TypeError:
        return json.loads(json.dumps(o, default=repr))


def _shard_main(args):
    modname, tier, seed, k, n_examples, wall = args
    os.environ.setdefault("PYTHONHASHSEED", "0")
    os.environ["VERIF_SHARD"] = str(k)
    try:
        prop = importlib.import_module(modname)
        stats = Stats()
        failures = []
        suppress = set()
        rounds = 0
        n = n_examples
        while rounds < getattr(prop, "MAX_ROUNDS", 3) and n > 0:
            strat = prop.strategy_for_shard(tier, k) if hasattr(prop, "strategy_for_shard") else None
            f = drive(prop, tier, shard_seed(seed, prop.ID, k) + rounds, n, stats, wall,
                      strategy=strat, suppress=tuple(suppress))
            stats.frozen = False
            if f is None:
                break
            failures.append(f)
            suppress.add(tuple(f["bucket"]))
            rounds += 1
            n = max(50, n_examples // 4)
        return {"ok": True, "stats": stats.dump(), "failures": failures, "shard": k}
    except BaseException:  # noqa: BLE001
        return {"ok": False, "error": traceback.format_exc(), "shard": k}


# ---------------------------------------------------------------------------------


def load_known(pid):
    """known_findings.txt: lines `open: property=<id> sub=<sub> [exc=<T>] [frame=<f>] :: text`
    and `fixed: property=<id> <commit> <text>`. Only `open:` entries suppress anything."""
    path = os.environ.get("VERIF_KNOWN") or os.path.join(ROOT, "known_findings.txt")
    out = []
    if not os.path.exists(path):
        return out
    for line in open(path):
        line = line.strip()
        if not line.startswith("open:"):
            continue
        head, _, text = line[5:].partition("::")
        kv = dict(t.split("=", 1) for t in head.split() if "=" in t)
        if kv.get("property") != pid:
            continue
        out.append({"sub": kv.get("sub"), "exc": kv.get("exc"), "frame": kv.get("frame"),
                    "text": text.strip()})
    return out


def matches_known(f, known):
    sub, exc, frame = f["bucket"]
    for k in known:
        if k["sub"] and k["sub"] != sub:
            continue
        if k["exc"] and k["exc"] != exc:
            continue
        if k["frame"] and k["frame"] != frame:
            continue
        return k
    return None


def write_replay(pid, f):
    d = os.path.join(OUT, "replays", pid)
    os.makedirs(d, exist_ok=True)
    body = json.dumps(f, indent=1, sort_keys=True, default=repr)
    name = hashlib.sha1(body.encode()).hexdigest()[:12] + ".json"
    path = os.path.join(d, name)
    with open(path, "w") as fh:
        fh.write(body)
    return path


def validate_evidence(ev):
    schema_path = "/root/.vp/EVIDENCE.schema.json"
    try:
        import jsonschema  # type: ignore

        if os.path.exists(schema_path):
            jsonschema.validate(ev, json.load(open(schema_path)))
            return "jsonschema"
    except ImportError:
        pass
    # minimal own validation
    for k in ("property_id", "tier", "seed", "level", "coverage", "wall_s"):
        assert k in ev, k
    cov = ev["coverage"]
    assert isinstance(cov["evaluations"], int) and cov["evaluations"] >= 1
    assert isinstance(cov["distinct_nontrivial"], int) and cov["distinct_nontrivial"] >= 2
    assert isinstance(cov["rule"], str)
    assert isinstance(cov["samples"], list) and cov["samples"]
    assert ev["tier"] in ("quick", "thorough") and isinstance(ev["seed"], int)
    return "builtin"


def run_regressions(prop, stats):
    """Replay committed regression seeds; returns failures."""
    from .lib import Violation

    d = os.path.join(ROOT, "regressions", prop.ID)
    fails = []
    n = 0
    if os.path.isdir(d):
        for name in sorted(os.listdir(d)):
            if not name.endswith(".json"):
                continue
            rec = json.load(open(os.path.join(d, name)))
            n += 1
            try:
                prop.check(rec["case"], stats)
            except Violation as v:
                fails.append({"sub": v.sub, "message": v.msg, "details": _jsonable(v.details),
                              "case": rec["case"], "bucket": list(bucket_of(v)),
                              "regression": name})
    return n, fails


def main(argv=None):
    ap = argparse.ArgumentParser()
    ap.add_argument("pid")
    ap.add_argument("--tier", default=os.environ.get("VERIF_TIER", "quick"))
    ap.add_argument("--replay")
    ap.add_argument("--shards", type=int)
    ap.add_argument("--examples", type=int)
    a = ap.parse_args(argv)
    tier = a.tier if a.tier in ("quick", "thorough") else "quick"
    try:
        seed = int(os.environ.get("VERIF_SEED", "1"))
    except ValueError:
        seed = 1
    pid = a.pid.upper()
    modname = f"vlib.props.{pid.lower()}"
    t0 = time.time()
    try:
        prop = importlib.import_module(modname)
        from .lib import Violation
    except SystemExit:
        raise
    except BaseException:
        traceback.print_exc()
        print(f"HARNESS ERROR: cannot import {modname}")
        return 2

    if a.replay:
        rec = json.load(open(a.replay))
        case = rec["case"]
        st = Stats()
        try:
            if rec.get("phase") and hasattr(prop, "replay_extra"):
                prop.replay_extra(rec, st)
            else:
                prop.check(case, st)
        except Violation as v:
            print(f"replay fails: {v}")
            print(f"VIOLATION property={pid} replay={a.replay}")
            return 1
        print("replay passes")
        return 0

    known = load_known(pid)
    bud = prop.budget(tier)
    shards = a.shards or bud.get("shards", 16)
    examples = a.examples or bud["examples"]
    wall = bud.get("wall", 600)

    failures = []
    reg_stats = Stats()
    try:
        n_reg, reg_fail = run_regressions(prop, reg_stats)
    except BaseException:
        traceback.print_exc()
        print("HARNESS ERROR in regression replay")
        return 2
    failures.extend(reg_fail)

    per_shard = prop.examples_for_shard if hasattr(prop, "examples_for_shard") else (lambda t, k: examples)
    jobs = [(modname, tier, seed, k, a.examples or per_shard(tier, k), wall) for k in range(shards)]
    ctx = mp.get_context("fork")
    with ctx.Pool(min(shards, 16)) as pool:
        results = pool.map(_shard_main, jobs, chunksize=1)
    bad = [r for r in results if not r["ok"]]
    if bad:
        for r in bad[:3]:
            sys.stderr.write(r["error"] + "\n")
        print(f"HARNESS ERROR in {len(bad)} shard(s)")
        return 2
    merged = merge_stats([reg_stats.dump()] + [r["stats"] for r in results])
    for r in results:
        failures.extend(r["failures"])

    extra_info = {}
    if hasattr(prop, "extra"):
        try:
            ex = prop.extra({"tier": tier, "seed": seed, "root": ROOT})
        except BaseException:
            traceback.print_exc()
            print("HARNESS ERROR in extra phase")
            return 2
        failures.extend(ex.get("failures", []))
        m2 = merge_stats([_stats_to_dump(merged), ex["stats"]]) if "stats" in ex else merged
        merged = m2
        extra_info = ex.get("info", {})

    if tier == "thorough" and getattr(prop, "FUZZ", None) and not os.environ.get("VERIF_NO_FUZZ"):
        try:
            fz = fuzz_campaign(prop, seed)
        except BaseException:
            traceback.print_exc()
            print("HARNESS ERROR in fuzz campaign")
            return 2
        failures.extend(fz["failures"])
        merged = merge_stats([_stats_to_dump(merged)] + fz["stats"])
        extra_info["atheris"] = fz["info"]

    # bucket failures: one report per root-cause bucket (smallest case wins)
    by_bucket = {}
    for f in failures:
        b = tuple(f["bucket"])
        size = len(json.dumps(f["case"], default=repr))
        if b not in by_bucket or size < by_bucket[b][0]:
            by_bucket[b] = (size, f)
    violations = 0
    known_hits = 0
    for b, (_, f) in sorted(by_bucket.items(), key=lambda kv: str(kv[0])):
        k = matches_known(f, known)
        if k:
            known_hits += 1
            print(f"KNOWN-FINDING: property={pid} {k['text']}")
            continue
        violations += 1
        f["property"] = pid
        path = write_replay(pid, f)
        print(f"  [{f['sub']}] {f['message']}")
        print(f"VIOLATION property={pid} replay={path}")
    for k in known:
        # open findings are excluded by construction in generators; still listed every run
        if not any(matches_known(f, [k]) for _, f in by_bucket.values()):
            print(f"KNOWN-FINDING: property={pid} {k['text']}")

    wall_s = round(time.time() - t0, 2)
    nontriv = merged["nontrivial"]
    samples = merged["samples"] or ["(no non-trivial sample recorded)"]
    ev = {
        "property_id": pid,
        "tier": tier,
        "seed": seed,
        "level": getattr(prop, "LEVEL", "exploration"),
        "coverage": {
            "evaluations": merged["evaluations"],
            "distinct_nontrivial": len(nontriv),
            "rule": prop.RULE,
            "samples": samples,
            "classes": dict(sorted(merged["labels"].items())),
            "maxima": merged["maxima"],
            "regression_seeds_replayed": n_reg,
            "shards": shards,
            "examples_per_shard": examples,
            "shard_seeds": [shard_seed(seed, pid, k) for k in range(min(shards, 4))],
            "skipped_after_wall_budget": merged["skipped_budget"],
            "budget_status": "complete" if merged["skipped_budget"] == 0 else "inconclusive (wall budget hit; remaining cases skipped)",
            "excluded_known_finding_cases": merged["suppressed"],
            "exhaustive": bool(extra_info.get("exhaustive", False)),
            **{k: v for k, v in extra_info.items() if k != "exhaustive"},
        },
        "assumptions": list(getattr(prop, "ASSUMPTIONS", [])),
        "wall_s": wall_s,
        "violations": violations,
    }
    try:
        how = validate_evidence(ev)
    except BaseException as e:  # noqa: BLE001
        if violations:
            # a violation stops the search early, so coverage counts may be below the
            # schema's minima; the violation report stands
            how = f"INVALID ({str(e)[:80]})"
        else:
            print(f"HARNESS ERROR: evidence does not validate: {str(e)[:300]}")
            return 2
    os.makedirs(os.path.join(OUT, "evidence"), exist_ok=True)
    with open(os.path.join(OUT, "evidence", f"{pid}.json"), "w") as fh:
        json.dump(ev, fh, indent=1, sort_keys=True, default=repr)
    print(
        f"{pid} tier={tier} seed={seed} evaluations={ev['coverage']['evaluations']} "
        f"nontrivial={len(nontriv)} violations={violations} known={known_hits} "
        f"wall={wall_s}s evidence-validated-by={how}"
    )
    return 1 if violations else 0


def fuzz_campaign(prop, seed):
    """Atheris campaign over the property's own Hypothesis test (vlib/fuzz.py); every
    reported failure is re-checked without Atheris before it counts."""
    import shutil
    import subprocess

    from .lib import Violation

    cfg = prop.FUZZ
    procs = cfg.get("procs", 12)
    runs = cfg.get("runs", 100000)
    work = os.path.join(ROOT, ".work", f"fuzz_{prop.ID}")
    shutil.rmtree(work, ignore_errors=True)
    os.makedirs(work, exist_ok=True)
    ps = []
    for k in range(procs):
        d = os.path.join(work, f"p{k}")
        cmd = [sys.executable, "-m", "vlib.fuzz", prop.ID, d, str(runs), str(shard_seed(seed, prop.ID + "fuzz", k) % (2**31 - 1) + 1)]
        if k >= (2 * procs) // 3:
            cmd.append("corpus")
        ps.append((d, subprocess.Popen(cmd, cwd=ROOT, stdout=subprocess.DEVNULL, stderr=subprocess.PIPE, text=True)))
    failures, stats, info = [], [], {"processes": procs, "runs_requested_each": runs, "executions": 0, "property_executions": 0, "skipped": None}
    deadline = time.time() + cfg.get("timeout", 3600)  # one wall budget for the whole campaign
    for d, p in ps:
        try:
            _, err = p.communicate(timeout=max(1.0, deadline - time.time()))
        except subprocess.TimeoutExpired:
            p.kill()
            _, err = p.communicate()
            info["skipped"] = "a fuzz process hit the wall budget (inconclusive)"
        import re

        m = re.search(r"Done (\d+) runs", err or "")
        if m:
            info["executions"] += int(m.group(1))
        try:
            res = json.load(open(os.path.join(d, "result.json")))
        except (OSError, ValueError):
            continue
        if res.get("skipped"):
            info["skipped"] = res["skipped"]
        info["property_executions"] += res.get("runs", 0)
        if res.get("stats"):
            stats.append(res["stats"])
        f = res.get("failure")
        if f:
            try:
                prop.check(f["case"], Stats())
            except Violation:
                failures.append(f)
    shutil.rmtree(work, ignore_errors=True)
    return {"failures": failures, "stats": stats, "info": info}


def _stats_to_dump(m):
    d = dict(m)
    d["nontrivial"] = sorted(m["nontrivial"]) if isinstance(m["nontrivial"], set) else m["nontrivial"]
    return d
