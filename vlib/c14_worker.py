"""Server interpreter for C14: started with a given PYTHONHASHSEED, imports tucan but never
parses; for every history received on stdin (one JSON line) it forks a child (cold ANTLR
prediction cache, fresh `random` state) that runs the history and returns every result."""

from __future__ import annotations

import json
import os
import random
import re
import sys
import threading

REPO = os.environ.get("VERIF_REPO", "/repo")
sys.path.insert(0, REPO)

from tucan.canonicalization import canonicalize_molecule  # noqa: E402
from tucan.graph_utils import permute_molecule  # noqa: E402
from tucan.io import graph_from_molfile_text, graph_from_tucan, graph_to_molfile  # noqa: E402
from tucan.serialization import serialize_molecule  # noqa: E402


def jsonable(v):
    if isinstance(v, (tuple, list)):
        return [jsonable(x) for x in v]
    if isinstance(v, float) and v != v:
        return "nan"
    return v


def graph_result(g):
    nodes = [[v, sorted((k, jsonable(x)) for k, x in d.items() if k != "explored")] for v, d in g.nodes(data=True)]
    edges = sorted([min(a, b), max(a, b), sorted((k, jsonable(x)) for k, x in d.items())] for a, b, d in g.edges(data=True))
    # the order in which the graph lists its bonds is observable too (list(g.edges), bond block
    # of a written molfile)
    order = [[a, b] for a, b in g.edges()]
    return {"nodes": nodes, "edges": edges, "edge_order": order}


def run_op(op):
    kind = op[0]
    try:
        if kind == "read":
            return graph_result(graph_from_molfile_text(op[1]))
        if kind == "pipeline":
            return serialize_molecule(canonicalize_molecule(graph_from_molfile_text(op[1])))
        if kind == "canon":
            return graph_result(canonicalize_molecule(graph_from_molfile_text(op[1])))
        if kind == "parse":
            return graph_result(graph_from_tucan(op[1]))
        if kind == "norm":
            return serialize_molecule(canonicalize_molecule(graph_from_tucan(op[1])))
        if kind == "write":
            text = graph_to_molfile(graph_from_molfile_text(op[1]))
            lines = text.split("\n")
            # header line 2: IIPPPPPPPPMMDDYYHHmm... - the timestamp is columns 11-20
            lines[1] = re.sub(r"^(.{10})\d{10}", r"\1##########", lines[1], count=1)
            return "\n".join(lines)
        if kind == "write_calc":
            text = graph_to_molfile(graph_from_molfile_text(op[1]), calc_coordinates=True)
            lines = text.split("\n")
            lines[1] = re.sub(r"^(.{10})\d{10}", r"\1##########", lines[1], count=1)
            return "\n".join(lines)
        if kind == "permute":
            return graph_result(permute_molecule(graph_from_molfile_text(op[1]), random_seed=op[2]))
        if kind == "random":
            for _ in range(op[1]):
                random.random()
            return None
    except Exception as e:  # noqa: BLE001 - the exception type IS the result
        return {"exception": type(e).__name__}
    raise ValueError(kind)


def run_history(ops):
    sys.setswitchinterval(1e-6)
    results = [None] * len(ops)
    i = 0
    while i < len(ops):
        op = ops[i]
        if op[0] == "threads":
            k = min(op[1], len(ops) - i - 1)
            # permute_molecule and `random` use the interpreter-wide generator by design (the
            # property does not claim them thread-safe): they run sequentially, before the section
            section = [j for j in range(i + 1, i + 1 + k) if ops[j][0] != "threads"]
            for j in section:
                if ops[j][0] in ("permute", "random"):
                    results[j] = {"thread": False, "value": run_op(ops[j])}
            idxs = [j for j in section if ops[j][0] not in ("permute", "random")]
            barrier = threading.Barrier(max(1, len(idxs)))

            def work(j):
                try:
                    barrier.wait(timeout=30)
                except threading.BrokenBarrierError:
                    pass
                results[j] = {"thread": True, "value": run_op(ops[j])}

            ts = [threading.Thread(target=work, args=(j,)) for j in idxs]
            for t in ts:
                t.start()
            for t in ts:
                t.join()
            i += 1 + k
            continue
        results[i] = {"thread": False, "value": run_op(op)}
        i += 1
    return results


def main():
    for line in sys.stdin:
        line = line.strip()
        if not line:
            continue
        job = json.loads(line)
        r, w = os.pipe()
        pid = os.fork()
        if pid == 0:
            os.close(r)
            try:
                out = json.dumps({"ok": True, "results": run_history(job["ops"])})
            except BaseException as e:  # noqa: BLE001
                out = json.dumps({"ok": False, "error": f"{type(e).__name__}: {e}"})
            with os.fdopen(w, "w") as fh:
                fh.write(out)
            os._exit(0)
        os.close(w)
        with os.fdopen(r) as fh:
            data = fh.read()
        os.waitpid(pid, 0)
        sys.stdout.write((data or json.dumps({"ok": False, "error": "child died"})) + "\n")
        sys.stdout.flush()


if __name__ == "__main__":
    main()
