"""Independent molfile renderers (own code, no tucan import).

render_v3000(mol, listing, style) / render_v2000(mol, listing, style) produce
spec-conformant connection tables for an abstract molecule.  `listing` fixes the order in
which atoms/bonds are listed, bond orientation and the file index of each atom; `style`
(a JSON-able dict of feature switches plus one integer `seed`) fixes everything the format
leaves to the writer.  Positions of blanks / splits / keywords derive from
random.Random(style["seed"]) - a pure function of the drawn style.
"""

from __future__ import annotations

import random

from .ptable import SYM_OF

V30 = "M  V30 "

ATOM_EXTRAS = [
    "CFG=0", "CFG=1", "CFG=2", "VAL=-1", "VAL=3", "HCOUNT=0", "HCOUNT=2", "STBOX=1", "INVRET=1",
    "SUBST=-1", "UNSAT=1", "RBCNT=2", "ATTCHPT=-1", "ATTCHPT=1", "RGROUPS=(2 1 2)",
    "ATTCHORD=(4 2 1 3 2)", "SEQID=7", "CLASS=AA", "AAMAP=0",
]
ATOM_EXTRAS_EXACHG = ["EXACHG=1", "EXACHG=0"]
BOND_EXTRAS = ["CFG=0", "CFG=1", "CFG=3", "TOPO=1", "TOPO=2", "RXCTR=0", "RXCTR=4", "STBOX=1", "DISP=HBOND", "DISP=COORD"]

DEFAULT_STYLE = {
    "seed": 0,
    "blanks": 1,          # max run of blanks between tokens
    "prop_shuffle": False,
    "explicit_zero": [],  # subset of ["CHG","RAD","MASS"] written as =0 on unlabelled atoms
    "extras": False,      # unrelated spec keywords on atom / bond lines
    "exachg": False,      # EXACHG keyword adjacent to CHG
    "dt": False,          # D / T symbols for H-2 / H-3
    "stars": 0,           # max number of multi-attachment (star atom) encodings
    "star_first": False,
    "split": "none",      # none | forced | random | many
    "split_counts": False,
    "trailer": False,     # SGROUP/COLLECTION blocks, text after M  END
    "eol": "\n",
    "header": ["", "", ""],
    "coord_fmt": "g",     # g | f4 | f6 | int | exp
    "end_eol": True,
    "counts_extra": False,
    "aamap": False,
    "long": False,        # many extra keywords: lines that wrap several times
}


def fmt_coord(x, how, rnd):
    if how == "int" and float(x).is_integer() and abs(x) < 1e15:
        return str(int(x))
    if how == "f4":
        return f"{x:.4f}"
    if how == "f6":
        return f"{x:.6f}"
    if how == "exp":
        return f"{x:.6e}"
    return repr(float(x))


def split_content(content, style, rnd, width=72):
    """Split the content of an `M  V30 ` line into continuation chunks.  Any line longer
    than `width` is split (conformance: <= 80 chars incl. prefix, dash and newline)."""
    mode = style.get("split", "none")
    chunks = []
    rest = content
    first = True
    while True:
        must = len(rest) > width
        want = False
        if mode == "random":
            want = rnd.random() < 0.35 and len(rest) >= 2
        elif mode == "many":
            want = rnd.random() < 0.7 and len(rest) >= 2
        elif mode == "each" and first:
            want = len(rest) >= 2
        if not (must or want):
            chunks.append(rest)
            return chunks
        hi = min(len(rest) - 1, width - 1)
        if must and mode in ("none", "forced"):
            k = hi
        else:
            k = rnd.randint(1, hi)
        chunks.append(rest[:k] + "-")
        rest = rest[k:]
        first = False


def _join(tokens, style, rnd):
    b = style.get("blanks", 1)
    if b <= 1:
        return " ".join(tokens)
    out = tokens[0]
    for t in tokens[1:]:
        out += " " * rnd.randint(1, b) + t
    return out


def plan_stars(mol, style, rnd):
    """Choose groups of bonds sharing an endpoint and a bond type to be written as one
    multi-attachment bond to a star atom.  Returns list of (center, [endpoints], type,
    [bond indices])."""
    k = style.get("stars", 0)
    if not k or mol.m == 0:
        return []
    by_center = {}
    for bi, (i, j, t) in enumerate(mol.bonds):
        by_center.setdefault((i, t), []).append((j, bi))
        by_center.setdefault((j, t), []).append((i, bi))
    keys = sorted(by_center)
    rnd.shuffle(keys)
    used = set()
    groups = []
    for c, t in keys:
        if len(groups) >= k:
            break
        cand = [(e, bi) for e, bi in by_center[(c, t)] if bi not in used]
        if not cand:
            continue
        take = len(cand) if rnd.random() < 0.5 else rnd.randint(1, len(cand))
        rnd.shuffle(cand)
        sel = cand[:take]
        for _, bi in sel:
            used.add(bi)
        groups.append((c, [e for e, _ in sel], t, [bi for _, bi in sel]))
    return groups


def render_v3000(mol, listing=None, style=None, with_model=False, split_override=None):
    """split_override = (content_index, position): write that content line split exactly
    once at `position` (used to enumerate every continuation point of a line)."""
    st = dict(DEFAULT_STYLE)
    st.update(style or {})
    rnd = random.Random(st["seed"])
    n = mol.n
    order = list(listing["order"]) if listing and "order" in listing else list(range(n))
    keys = list(listing["keys"]) if listing and "keys" in listing else list(range(1, n + 1))
    border = list(listing["bond_order"]) if listing and "bond_order" in listing else list(range(mol.m))
    flips = list(listing["flips"]) if listing and "flips" in listing else [False] * mol.m

    groups = plan_stars(mol, st, rnd)
    in_group = {}
    for gi, (_, _, _, bis) in enumerate(groups):
        for bi in bis:
            in_group[bi] = gi
    # star atoms get fresh file indices and are inserted at random positions of the atom block
    used_keys = set(keys)
    star_keys = []
    nxt = max(used_keys, default=0) + 1
    for _ in groups:
        if rnd.random() < 0.5:
            cand = nxt
            nxt += 1
        else:
            cand = rnd.randint(1, max(used_keys | {nxt}) + 5)
            while cand in used_keys:
                cand += 1
        used_keys.add(cand)
        nxt = max(nxt, cand + 1)
        star_keys.append(cand)

    atom_lines = []
    model_atoms = []
    for i in order:
        z, mass, rad, chg, x, y, zc = mol.atoms[i]
        sym = SYM_OF[z]
        write_mass = mass
        if st["dt"] and z == 1 and mass in (2, 3) and rnd.random() < 0.8:
            sym = "D" if mass == 2 else "T"
            write_mass = None
        ctoks = [fmt_coord(c, st["coord_fmt"], rnd) for c in (x, y, zc)]
        model_atoms.append([SYM_OF[z], z, chg, rad, mass] + [float(t) for t in ctoks])
        toks = [str(keys[i]), sym] + ctoks
        toks.append(str(rnd.randint(0, 9)) if st["aamap"] else "0")
        props = []
        if chg or ("CHG" in st["explicit_zero"] and rnd.random() < 0.7):
            props.append(f"CHG={chg}")
        if rad or ("RAD" in st["explicit_zero"] and rnd.random() < 0.7):
            props.append(f"RAD={rad}")
        if write_mass is not None and (write_mass or ("MASS" in st["explicit_zero"] and rnd.random() < 0.7)):
            props.append(f"MASS={write_mass}")
        if st["extras"]:
            for _ in range(rnd.randint(4, 14) if st.get("long") else rnd.randint(0, 3)):
                props.append(rnd.choice(ATOM_EXTRAS))
        if st["exachg"]:
            props.append(rnd.choice(ATOM_EXTRAS_EXACHG))
        if st["prop_shuffle"]:
            rnd.shuffle(props)
        elif st["exachg"] and rnd.random() < 0.5:
            # EXACHG directly before or after CHG
            ex = props.pop()
            pos = next((k for k, p in enumerate(props) if p.startswith("CHG=")), 0)
            props.insert(pos + rnd.randint(0, 1), ex)
        atom_lines.append(_join(toks + props, st, rnd))
    for sk in star_keys:
        toks = [str(sk), "*", "0", "0", "0", "0"]
        atom_lines.insert(rnd.randint(0, len(atom_lines)), _join(toks, st, rnd))

    bond_lines = []
    bidx = 0
    written_groups = set()
    for bi in border:
        i, j, t = mol.bonds[bi]
        if bi in in_group:
            gi = in_group[bi]
            if gi in written_groups:
                continue
            written_groups.add(gi)
            c, ends, gt, _ = groups[gi]
            bidx += 1
            ends = list(ends)
            rnd.shuffle(ends)
            a, b = keys[c], star_keys[gi]
            if st["star_first"] and rnd.random() < 0.5:
                a, b = b, a
            toks = [str(bidx), str(gt), str(a), str(b)]
            extra = []
            if st["extras"] and rnd.random() < 0.5:
                extra.append(rnd.choice(BOND_EXTRAS[:8]))
            endp = "ENDPTS=(" + " ".join([str(len(ends))] + [str(keys[e]) for e in ends]) + ")"
            att = "ATTACH=" + rnd.choice(["ALL", "ANY"])
            tail = [endp, att]
            if rnd.random() < 0.3:
                tail = [att, endp] if not extra else tail
            bond_lines.append(_join(toks + extra + tail, st, rnd))
            continue
        if flips[bi]:
            i, j = j, i
        bidx += 1
        toks = [str(bidx), str(t), str(keys[i]), str(keys[j])]
        if st["extras"]:
            for _ in range(rnd.randint(6, 16) if st.get("long") else rnd.randint(0, 2)):
                toks.append(rnd.choice(BOND_EXTRAS))
        bond_lines.append(_join(toks, st, rnd))

    na = len(atom_lines)
    nb = len(bond_lines)
    contents = ["BEGIN CTAB"]
    counts = f"COUNTS {na} {nb} 0 0 0"
    if st["counts_extra"]:
        counts = f"COUNTS {na} {nb} 0 0 1 REGNO=123"
    contents.append(counts)
    contents.append("BEGIN ATOM")
    contents += atom_lines
    contents.append("END ATOM")
    if nb or rnd.random() < 0.3:
        contents.append("BEGIN BOND")
        contents += bond_lines
        contents.append("END BOND")
    if st["trailer"]:
        if nb and rnd.random() < 0.4:
            contents.append(f"LINKNODE 1 3 2 {keys[order[0]]} {keys[order[-1]]} {keys[order[0]]} {keys[order[-1]]}")
        if rnd.random() < 0.5 and na >= 1:
            contents += ["BEGIN SGROUP", f"1 DAT 0 ATOMS=(1 {keys[order[0]]}) FIELDNAME=note FIELDDATA=x", "END SGROUP"]
        if rnd.random() < 0.5 and na >= 1:
            contents += ["BEGIN COLLECTION", f"MDLV30/HILITE ATOMS=(1 {keys[order[0]]})", "END COLLECTION"]
    contents.append("END CTAB")

    lines = list(st["header"]) + ["  0  0  0     0  0            999 V3000"]
    for idx, c in enumerate(contents):
        structural = c.startswith(("BEGIN", "END", "COUNTS"))
        if st["blanks"] > 1 and split_override is None:
            # blank runs also before the first and after the last token of a line
            c = " " * rnd.randint(0, st["blanks"] - 1) + c + " " * rnd.randint(0, st["blanks"] - 1)
        if split_override is not None and split_override[0] == idx % len(contents) and 1 <= split_override[1] < len(c) and len(c) <= 72:
            k = split_override[1]
            lines += [V30 + c[:k] + "-", V30 + c[k:]]
            continue
        if structural and not st["split_counts"]:
            sub = dict(st)
            sub["split"] = "forced"
            chunks = split_content(c, sub, rnd)
        else:
            chunks = split_content(c, st, rnd)
        lines += [V30 + ch for ch in chunks]
    lines.append("M  END")
    if st["trailer"]:
        lines += ["", "> <note>", "text after the end", "$$$$"][: rnd.randint(0, 4)]
    eol = st["eol"]
    text = eol.join(lines)
    if st["end_eol"]:
        text += eol
    if with_model:
        posn = {a: k for k, a in enumerate(order)}
        model = {"atoms": model_atoms, "bonds": {frozenset((posn[i], posn[j])): t for i, j, t in mol.bonds},
                 "contents": contents, "n_star_groups": len(groups), "max_endpts": max([len(g[1]) for g in groups] + [0])}
        return text, model
    return text


# ------------------------------------------------------------------------- V2000

V2000_CHARGE_CODE = {0: 0, 3: 1, 2: 2, 1: 3, -1: 5, -2: 6, -3: 7}

DEFAULT_STYLE_V2 = {
    "seed": 0,
    "chg_by": "auto",     # auto | code | mline
    "stale_codes": False, # junk charge codes in the atom block when M CHG/RAD lines exist
    "per_line": 8,        # entries per M line (1..8)
    "vary_per_line": False,
    "dt": False,
    "other_lines": False, # unrelated property lines
    "atom_lists": 0,
    "truncate": False,    # atom lines cut after the charge field's last used column
    "eol": "\n",
    "header": ["", "", ""],
    "shuffle_props": False,
    "bond_extras": False,
    "zero_entries": False,  # explicit zero-valued entries (M  RAD ... 0) for unlabelled atoms
    "text_after_end": False,
    "interleave": False,
}


def v2000_code_encodable(mol):
    for z, mass, rad, chg, *_ in mol.atoms:
        if rad == 0 and -3 <= chg <= 3:
            continue
        if chg == 0 and rad == 2:
            continue
        return False
    return True


def _mlines(tag, entries, st, rnd):
    out = []
    k = 0
    while k < len(entries):
        per = st["per_line"]
        if st["vary_per_line"]:
            per = rnd.randint(1, 8)
        chunk = entries[k : k + per]
        k += per
        out.append(f"M  {tag}{len(chunk):3d}" + "".join(f" {a:3d} {v:3d}" for a, v in chunk))
    return out


def render_v2000(mol, listing=None, style=None, with_model=False):
    st = dict(DEFAULT_STYLE_V2)
    st.update(style or {})
    rnd = random.Random(st["seed"])
    n = mol.n
    assert n <= 999 and mol.m <= 999
    order = list(listing["order"]) if listing and "order" in listing else list(range(n))
    border = list(listing["bond_order"]) if listing and "bond_order" in listing else list(range(mol.m))
    flips = list(listing["flips"]) if listing and "flips" in listing else [False] * mol.m
    pos = {a: k + 1 for k, a in enumerate(order)}  # V2000 indices are positions

    by = st["chg_by"]
    encodable = v2000_code_encodable(mol)
    if by == "auto":
        by = "code" if encodable and rnd.random() < 0.5 else "mline"
    if by == "code" and not encodable:
        by = "mline"
    any_chg_or_rad = any(a[3] or a[2] for a in mol.atoms)

    atom_lines = []
    model_atoms = []
    iso_entries, chg_entries, rad_entries = [], [], []
    for i in order:
        z, mass, rad, chg, x, y, zc = mol.atoms[i]
        sym = SYM_OF[z]
        model_atoms.append([sym, z, chg, rad, mass] + [float(f"{c:10.4f}") for c in (x, y, zc)])
        if st["dt"] and z == 1 and mass in (2, 3) and rnd.random() < 0.8:
            sym = "D" if mass == 2 else "T"
        elif mass:
            iso_entries.append((pos[i], mass))
        code = 0
        if by == "code":
            code = 4 if rad == 2 else V2000_CHARGE_CODE[chg]
        else:
            if chg:
                chg_entries.append((pos[i], chg))
            if rad:
                rad_entries.append((pos[i], rad))
            if st["stale_codes"] and any_chg_or_rad:
                code = rnd.choice([0, 1, 3, 4, 5, 7])
        if st["zero_entries"] and by != "code":
            if not rad and rnd.random() < 0.3 and any_chg_or_rad:
                rad_entries.append((pos[i], 0))
            if not chg and rnd.random() < 0.3 and any_chg_or_rad:
                chg_entries.append((pos[i], 0))
        line = f"{x:10.4f}{y:10.4f}{zc:10.4f} {sym:<3}{0:2d}{code:3d}"
        if not st["truncate"]:
            hhh = rnd.choice([0, 0, 1, 2]) if st["other_lines"] else 0
            vvv = rnd.choice([0, 0, 15, 3]) if st["other_lines"] else 0
            line += f"{0:3d}{hhh:3d}{0:3d}{vvv:3d}{0:3d}{0:3d}{0:3d}{0:3d}{0:3d}{0:3d}"
        elif code == 0 and rnd.random() < 0.5:
            line = line[:34].rstrip() if rnd.random() < 0.5 else line[:36]
        atom_lines.append(line)

    bond_lines = []
    for bi in border:
        i, j, t = mol.bonds[bi]
        if flips[bi]:
            i, j = j, i
        sss = rnd.choice([0, 1, 4, 6]) if st["bond_extras"] else 0
        topo = rnd.choice([0, 1, 2]) if st["bond_extras"] else 0
        line = f"{pos[i]:3d}{pos[j]:3d}{t:3d}{sss:3d}"
        if st["bond_extras"] or rnd.random() < 0.5:
            line += f"{0:3d}{topo:3d}{0:3d}"
        bond_lines.append(line)

    list_lines = []
    for _ in range(st["atom_lists"]):
        a = rnd.randint(1, n)
        list_lines.append(f"{a:3d} {'T' if rnd.random() < 0.5 else 'F'}    {2:1d}{7:4d}{8:4d}")

    props = []
    if by == "mline" or chg_entries or rad_entries:
        if chg_entries:
            props.append(_mlines("CHG", chg_entries, st, rnd))
        if rad_entries:
            props.append(_mlines("RAD", rad_entries, st, rnd))
    if iso_entries:
        props.append(_mlines("ISO", iso_entries, st, rnd))
    if st["other_lines"]:
        others = []
        a = rnd.randint(1, n)
        others.append([f"A  {a:3d}", "alias text"])
        others.append([f"V  {a:3d} a value"])
        others.append([f"G  {a:3d}{1:3d}", "group abbreviation"])
        others.append([f"M  STY{1:3d} {1:3d} SUP"])
        others.append([f"M  SAL {1:3d}{1:3d} {a:3d}"])
        others.append([f"M  SLB{1:3d} {1:3d} {1:3d}"])
        others.append([f"M  RGP{1:3d} {a:3d} {1:3d}"])
        others.append([f"M  ALS {a:3d}{2:3d} F C   N   "])
        others.append([f"M  APO{1:3d} {a:3d} {1:3d}"])
        others.append([f"M  SUB{1:3d} {a:3d} {2:3d}"])
        others.append([f"M  UNS{1:3d} {a:3d} {1:3d}"])
        others.append([f"M  RBC{1:3d} {a:3d} {2:3d}"])
        others.append([f"M  LIN{1:3d} {a:3d} {2:3d} {a:3d} {a:3d}"])
        rnd.shuffle(others)
        props += others[: rnd.randint(1, 5)]
    if st["shuffle_props"]:
        rnd.shuffle(props)
    if st.get("interleave"):
        # property lines of different kinds interleaved (a writer emitting atom by atom);
        # 'A'/'G' lines keep their text line directly behind them
        units = []
        for grp in props:
            if grp and grp[0][:3] in ("A  ", "G  "):
                units.append(grp)
            else:
                units.extend([ln] for ln in grp)
        rnd.shuffle(units)
        props = units
    prop_lines = [ln for grp in props for ln in grp]

    counts = f"{n:3d}{mol.m:3d}{len(list_lines):3d}  0{rnd.choice([0, 1]) if st['other_lines'] else 0:3d}  0  0  0  0  0999 V2000"
    lines = list(st["header"]) + [counts] + atom_lines + bond_lines + list_lines + prop_lines + ["M  END"]
    if st["text_after_end"]:
        lines += ["", "> <x>", "M  CHG  1   1   5"[: rnd.randint(0, 17)], "$$$$"]
    eol = st["eol"]
    text = eol.join(lines) + eol
    if with_model:
        model = {"atoms": model_atoms, "bonds": {frozenset((pos[i] - 1, pos[j] - 1)): t for i, j, t in mol.bonds},
                 "encoding": by, "stale": bool(st["stale_codes"] and by == "mline" and any_chg_or_rad),
                 "max_entries_per_line": max([int(ln[6:9]) for ln in prop_lines if ln[:6] in ("M  CHG", "M  RAD", "M  ISO")] + [0]),
                 "dt_with_iso": any(a[0] in ("D", "T") for a in [ln[31:34].strip() for ln in atom_lines]) and bool(iso_entries),
                 "n_prop_lines": len(prop_lines)}
        return text, model
    return text
