"""Own periodic table (typed in from public knowledge; shares nothing with tucan)."""

SYMBOLS = (
    "H He Li Be B C N O F Ne Na Mg Al Si P S Cl Ar K Ca Sc Ti V Cr Mn Fe Co Ni Cu Zn "
    "Ga Ge As Se Br Kr Rb Sr Y Zr Nb Mo Tc Ru Rh Pd Ag Cd In Sn Sb Te I Xe Cs Ba La Ce "
    "Pr Nd Pm Sm Eu Gd Tb Dy Ho Er Tm Yb Lu Hf Ta W Re Os Ir Pt Au Hg Tl Pb Bi Po At Rn "
    "Fr Ra Ac Th Pa U Np Pu Am Cm Bk Cf Es Fm Md No Lr Rf Db Sg Bh Hs Mt Ds Rg Cn Nh Fl "
    "Mc Lv Ts Og"
).split()
assert len(SYMBOLS) == 118 and len(set(SYMBOLS)) == 118

Z_OF = {s: i + 1 for i, s in enumerate(SYMBOLS)}
SYM_OF = {i + 1: s for i, s in enumerate(SYMBOLS)}

# elements that are common in chemistry (weighted palette)
COMMON_Z = [1, 5, 6, 7, 8, 9, 14, 15, 16, 17, 35, 53, 11, 19, 26, 29, 30, 46, 78]


def hill_order(symbols):
    """Hill system order of a collection of distinct element symbols."""
    symbols = set(symbols)
    out = []
    if "C" in symbols:
        out.append("C")
        symbols.discard("C")
        if "H" in symbols:
            out.append("H")
            symbols.discard("H")
    out.extend(sorted(symbols))
    return out


def selftest_against_ebnf(ebnf_text):
    """The order of element rules `x ::= "Sym" count?` in the published grammar must be
    the atomic-number order of the frozen table. Returns an error string or None."""
    import re

    found = re.findall(r'^\w+\s+::=\s+"([A-Z][a-z]?)"\s+count\?\s*$', ebnf_text, re.M)
    if found != SYMBOLS:
        return "published grammar's element rules differ from the frozen periodic table"
    return None
