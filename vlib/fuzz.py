"""Coverage-guided campaign (Atheris / libFuzzer) over the SAME Hypothesis property that the
sharded search uses: libFuzzer mutates bytes, `fuzz_one_input` decodes them through the
property's strategy into a case, and the property's oracle runs inside the target, so
coverage feedback from the instrumented `tucan` package steers the structured input.

Run as a subprocess:  python -m vlib.fuzz <ID> <workdir> <runs> <seed> [corpus_seed]
Writes <workdir>/result.json {"runs": n, "failure": {...}|null}.  A violation is written
out immediately from inside the target (atexit does not run under libFuzzer).
"""

from __future__ import annotations

import importlib
import json
import os
import sys

ROOT = os.path.dirname(os.path.dirname(os.path.abspath(__file__)))
DEPS = os.path.join(ROOT, ".deps")
if os.path.isdir(DEPS) and DEPS not in sys.path:
    sys.path.append(DEPS)


def main():
    pid, workdir, runs, seed = sys.argv[1], sys.argv[2], int(sys.argv[3]), int(sys.argv[4])
    with_corpus = len(sys.argv) > 5 and sys.argv[5] == "corpus"
    os.makedirs(workdir, exist_ok=True)
    result_path = os.path.join(workdir, "result.json")
    try:
        import atheris
    except ImportError:
        json.dump({"runs": 0, "failure": None, "skipped": "atheris not installed"}, open(result_path, "w"))
        return 0
    with atheris.instrument_imports(include=["tucan"]):
        from . import lib  # noqa: F401  (imports tucan from /repo, instrumented)
    import hypothesis
    from hypothesis import HealthCheck, given, settings

    from .lib import Violation
    from .runner import Stats, bucket_of

    prop = importlib.import_module(f"vlib.props.{pid.lower()}")
    stats = Stats()
    state = {"runs": 0}

    @settings(database=None, deadline=None, suppress_health_check=list(HealthCheck), max_examples=10**9)
    # quick-tier sizes: a fuzz execution must stay cheap (thousands per minute); the large
    # structures are the sharded search's business
    @given(prop.fuzz_strategy() if hasattr(prop, "fuzz_strategy") else prop.strategy("quick"))
    def test(case):
        state["runs"] += 1
        try:
            prop.check(case, stats)
        except Violation as v:
            failure = {"sub": v.sub, "message": v.msg, "details": {}, "case": case, "bucket": list(bucket_of(v)), "found_by": "atheris"}
            json.dump({"runs": state["runs"], "failure": failure, "stats": stats.dump()}, open(result_path, "w"), default=repr)
            raise

    corpus = os.path.join(workdir, "corpus")
    os.makedirs(corpus, exist_ok=True)
    if with_corpus:
        # a few small valid byte strings: run the property normally for a handful of examples
        # and keep the choice sequences libFuzzer-style (random bytes of graded length)
        import random

        r = random.Random(seed)
        for k in range(16):
            with open(os.path.join(corpus, f"seed{k}"), "wb") as fh:
                fh.write(bytes(r.randrange(256) for _ in range(256 * (k + 1))))

    def target(data):
        test.hypothesis.fuzz_one_input(data)
        if state["runs"] % 2000 == 0:
            json.dump({"runs": state["runs"], "failure": None, "stats": stats.dump()}, open(result_path, "w"), default=repr)

    json.dump({"runs": 0, "failure": None}, open(result_path, "w"))
    argv = [sys.argv[0], f"-runs={runs}", f"-seed={seed}", "-max_len=8192", "-len_control=0", "-print_final_stats=0", f"-artifact_prefix={workdir}/", corpus]
    atheris.Setup(argv, target)
    try:
        atheris.Fuzz()
    finally:
        pass


if __name__ == "__main__":
    main()
