"""Independent validator for emitted TUCAN strings (C05): grammar + canonical layout.
Shares no code with tucan."""

from __future__ import annotations

from collections import Counter

from . import refgrammar as rg
from .ptable import SYM_OF, Z_OF


class LayoutError(Exception):
    def __init__(self, rule, msg):
        super().__init__(f"{rule}: {msg}")
        self.rule = rule
        self.msg = msg


def validate(s, mol):
    """Raise LayoutError if `s` is not a grammatical, canonically laid out string for the
    abstract molecule `mol` (necessary conditions only; isomorphism is C03's job)."""
    try:
        ref = rg.read(s)
    except rg.Rejected as e:
        raise LayoutError("grammar", f"not accepted by the published grammar / index rules ({e})") from None
    want_formula = mol.formula_hill()
    got_formula = rg.split_sections(s)[0]
    if got_formula != want_formula:
        raise LayoutError("formula", f"formula {got_formula!r} is not the Hill formula {want_formula!r} of the molecule")
    for sym, c in ref["formula"]:
        if c < 1:
            raise LayoutError("formula", "zero count")
    n = mol.n
    if len(ref["atoms"]) != n:
        raise LayoutError("formula", "atom total differs")
    if sorted(a[0] for a in mol.atoms) != ref["atoms"]:
        raise LayoutError("blocks", "element blocks do not match the molecule's element counts by increasing Z")
    tl = ref["tuples_raw"]
    if len(tl) != len(mol.edge_set()):
        raise LayoutError("tuples", f"{len(tl)} tuples for {len(mol.edge_set())} bonds")
    prev = None
    for a, b in tl:
        if not a < b:
            raise LayoutError("tuple-orientation", f"tuple ({a}-{b}) is not written with a<b")
        if prev is not None and not prev < (a, b):
            raise LayoutError("tuple-order", f"tuple ({a}-{b}) is not strictly after ({prev[0]}-{prev[1]})")
        prev = (a, b)
    zs = ref["atoms"]
    bond_elems = Counter(tuple(sorted((zs[a - 1], zs[b - 1]))) for a, b in tl)
    want_bond_elems = Counter(tuple(sorted((mol.atoms[i][0], mol.atoms[j][0]))) for i, j in (tuple(e) for e in mol.edge_set()))
    if bond_elems != want_bond_elems:
        raise LayoutError("bond-elements", "multiset of bonded element pairs differs from the molecule's")
    blocks = ref["attr_blocks_raw"]
    prev_i = 0
    at = {}
    for i, props in blocks:
        if i <= prev_i:
            raise LayoutError("attr-order", f"attribute block for atom {i} is not in strictly ascending index order (one block per atom)")
        prev_i = i
        keys = [k for k, _ in props]
        if len(set(keys)) != len(keys):
            raise LayoutError("attr-keys", f"atom {i}: key written twice")
        for k, v in props:
            if k not in ("mass", "rad"):
                raise LayoutError("attr-keys", f"unknown key {k}")
            if not int(v) > 0:
                raise LayoutError("attr-values", f"atom {i}: {k}={v} is not strictly positive")
        at[i - 1] = {k: int(v) for k, v in props}
    deg = Counter()
    for a, b in tl:
        deg[a - 1] += 1
        deg[b - 1] += 1
    got = Counter((zs[k], at.get(k, {}).get("mass", 0), at.get(k, {}).get("rad", 0), deg[k]) for k in range(n))
    d = mol.degrees()
    want = Counter((mol.atoms[i][0], mol.atoms[i][1], mol.atoms[i][2], d[i]) for i in range(n))
    if got != want:
        diff = (got - want) + (want - got)
        raise LayoutError("atom-multiset", f"multiset of (Z, mass, rad, degree) differs from the molecule's, e.g. {list(diff.items())[:3]}")
    labelled = sum(1 for a in mol.atoms if a[1] or a[2])
    if len(blocks) != labelled:
        raise LayoutError("attr-count", f"{len(blocks)} attribute blocks for {labelled} labelled atoms")
    return ref
