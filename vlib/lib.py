"""Thin adapter around the library under test (public entry points only).

Every call into tucan goes through `call(...)`, which turns any exception escaping the
library on an in-domain input into a `Violation` of the running property (no catch-all
that turns errors into passes); exceptions in the harness itself propagate and end up as
exit 2.
"""

from __future__ import annotations

import os
import sys
import traceback

REPO = os.environ.get("VERIF_REPO", "/repo")
if REPO not in sys.path:
    sys.path.insert(0, REPO)

import tucan  # noqa: E402

if not os.path.realpath(tucan.__file__).startswith(os.path.realpath(REPO) + os.sep):
    sys.stderr.write(
        f"HARNESS ERROR: tucan imported from {tucan.__file__}, not from {REPO}\n"
    )
    sys.exit(2)

import networkx as nx  # noqa: E402
from tucan.canonicalization import canonicalize_molecule  # noqa: E402
from tucan.graph_utils import graph_from_molecule, permute_molecule  # noqa: E402
from tucan.io import (  # noqa: E402
    MolfileParserException,
    TucanParserException,
    graph_from_file,
    graph_from_molfile_text,
    graph_from_tucan,
    graph_to_molfile,
)
from tucan.serialization import serialize_molecule  # noqa: E402
from tucan import graph_attributes as GA  # noqa: E402

from .ptable import SYM_OF  # noqa: E402


class Violation(Exception):
    """The property under test does not hold on this case."""

    def __init__(self, sub, msg, **details):
        super().__init__(f"[{sub}] {msg}")
        self.sub = sub
        self.msg = msg
        self.details = details


def innermost_tucan_frame(tb):
    last = None
    for fs in traceback.extract_tb(tb):
        fn = os.path.realpath(fs.filename)
        if fn.startswith(os.path.realpath(REPO) + os.sep):
            last = f"{os.path.relpath(fn, REPO)}:{fs.name}"
    return last


def call(sub, fn, *args, allowed=(), **kw):
    """Call a library function; any exception not in `allowed` is a violation."""
    try:
        return fn(*args, **kw)
    except allowed:
        raise
    except (KeyboardInterrupt, SystemExit, MemoryError):
        raise
    except BaseException as e:  # noqa: BLE001 - deliberately everything
        frame = innermost_tucan_frame(e.__traceback__)
        raise Violation(
            sub,
            f"library raised {type(e).__name__}: {str(e)[:300]}",
            exception=type(e).__name__,
            frame=frame,
        ) from None


def pipeline(g, sub="pipeline"):
    c = call(sub + ":canonicalize", canonicalize_molecule, g)
    return call(sub + ":serialize", serialize_molecule, c)


def norm_string(s, sub="norm"):
    g = call(sub + ":parse", graph_from_tucan, s)
    return pipeline(g, sub)


def mol_to_graph(mol, order=None, keys=None, bond_order=None, flips=None):
    """Graph route: build a tucan graph from the abstract model through the library's own
    constructor (the one both readers and the parser use).  `order` = insertion order of
    atoms, `keys` = arbitrary unique integer keys per atom, `bond_order`/`flips` = listing
    order and orientation of bonds."""
    n = mol.n
    order = list(range(n)) if order is None else order
    keys = list(range(n)) if keys is None else keys
    atom_attrs = {}
    for i in order:
        z, mass, rad, chg, x, y, zc = mol.atoms[i]
        d = {
            GA.ELEMENT_SYMBOL: SYM_OF[z],
            GA.ATOMIC_NUMBER: z,
            GA.PARTITION: 0,
            GA.X_COORD: x,
            GA.Y_COORD: y,
            GA.Z_COORD: zc,
        }
        if chg:
            d[GA.CHG] = chg
        if mass:
            d[GA.MASS] = mass
        if rad:
            d[GA.RAD] = rad
        atom_attrs[keys[i]] = d
    bidx = list(range(mol.m)) if bond_order is None else bond_order
    bond_attrs = {}
    for k in bidx:
        i, j, t = mol.bonds[k]
        if flips is not None and flips[k]:
            i, j = j, i
        bond_attrs[(keys[i], keys[j])] = {GA.BOND_TYPE: t}
    return call("graph_from_molecule", graph_from_molecule, atom_attrs, bond_attrs)


def graph_identity(g):
    """(colours per node in iteration order, edge set) of a tucan graph, absent == 0."""
    nodes = list(g.nodes)
    cols = {
        v: (
            g.nodes[v].get(GA.ATOMIC_NUMBER),
            g.nodes[v].get(GA.MASS, 0) or 0,
            g.nodes[v].get(GA.RAD, 0) or 0,
        )
        for v in nodes
    }
    return cols, {frozenset(e) for e in g.edges}


def graph_to_nx_coloured(g):
    h = nx.Graph()
    cols, edges = graph_identity(g)
    for v, c in cols.items():
        h.add_node(v, c=c)
    for e in edges:
        a, b = tuple(e)
        h.add_edge(a, b)
    return h


class default_recursion:
    """Run library calls with the stack head-room a plain script has under CPython's default
    recursion limit (1000 frames, ~10 of them used by the caller).  Hypothesis raises the
    interpreter's limit while it runs a test, which would otherwise mask recursion-depth
    failures that every ordinary caller of the library would see."""

    def __enter__(self):
        depth = 0
        f = sys._getframe()
        while f is not None:
            depth += 1
            f = f.f_back
        self.old = sys.getrecursionlimit()
        sys.setrecursionlimit(depth + 990)
        return self

    def __exit__(self, *exc):
        sys.setrecursionlimit(self.old)
        return False
