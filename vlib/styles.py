"""Hypothesis strategies for renderer styles (JSON-able dicts)."""

from __future__ import annotations

from hypothesis import strategies as st

HEADER_ALPHABET = "abcdefghijklmnopqrstuvwxyzABCDEFGHIJKLMNOPQRSTUVWXYZ0123456789 .,;:-_()[]#$%&/+*'\"<>=!?@"


@st.composite
def headers(draw):
    def line():
        s = draw(st.text(alphabet=HEADER_ALPHABET, max_size=40))
        if s.startswith("M  "):
            s = "x" + s
        return s

    if draw(st.booleans()):
        return ["", "", ""]
    return [line(), line(), line()]


@st.composite
def v3000_styles(draw, rich=True, allow_exachg=True, allow_zero=True, allow_stars=True):
    s = {"seed": draw(st.integers(0, 2**31))}
    if not rich:
        return s
    s["blanks"] = draw(st.sampled_from([1, 1, 2, 4]))
    s["prop_shuffle"] = draw(st.booleans())
    if allow_zero:
        s["explicit_zero"] = draw(st.lists(st.sampled_from(["CHG", "RAD", "MASS"]), unique=True, max_size=3))
    s["extras"] = draw(st.booleans())
    if allow_exachg:
        s["exachg"] = draw(st.sampled_from([False, False, True]))
    s["dt"] = draw(st.booleans())
    if allow_stars:
        s["stars"] = draw(st.sampled_from([0, 0, 1, 2, 3]))
        s["star_first"] = draw(st.booleans())
    s["split"] = draw(st.sampled_from(["none", "forced", "random", "random", "many", "each"]))
    s["split_counts"] = draw(st.booleans())
    s["trailer"] = draw(st.booleans())
    s["eol"] = draw(st.sampled_from(["\n", "\n", "\r\n", "\r"]))
    s["header"] = draw(headers())
    s["coord_fmt"] = draw(st.sampled_from(["g", "f4", "f6", "int", "exp"]))
    s["end_eol"] = draw(st.booleans())
    s["counts_extra"] = draw(st.booleans())
    s["aamap"] = draw(st.booleans())
    s["long"] = draw(st.sampled_from([False, False, False, True]))
    return s


@st.composite
def v2000_styles(draw, rich=True):
    s = {"seed": draw(st.integers(0, 2**31))}
    if not rich:
        return s
    s["chg_by"] = draw(st.sampled_from(["auto", "code", "mline"]))
    s["stale_codes"] = draw(st.booleans())
    s["per_line"] = draw(st.sampled_from([1, 2, 3, 4, 5, 6, 7, 8, 8, 8]))
    s["vary_per_line"] = draw(st.booleans())
    s["dt"] = draw(st.booleans())
    s["other_lines"] = draw(st.booleans())
    s["atom_lists"] = draw(st.sampled_from([0, 0, 1, 3]))
    s["truncate"] = draw(st.sampled_from([False, False, True]))
    s["eol"] = draw(st.sampled_from(["\n", "\n", "\r\n"]))
    s["header"] = draw(headers())
    s["shuffle_props"] = draw(st.booleans())
    s["bond_extras"] = draw(st.booleans())
    s["zero_entries"] = draw(st.sampled_from([False, False, True]))
    s["text_after_end"] = draw(st.sampled_from([False, False, True]))
    s["interleave"] = draw(st.sampled_from([False, False, True]))
    return s
