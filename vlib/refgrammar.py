"""Reference reader for TUCAN strings, written from the published EBNF.

Part 1: a small interpreter for the EBNF dialect of tucan/parser/tucan.ebnf
(`::=`, `|`, sequence, `?`, `*`, `+`, groups, "quoted" terminals, [a-b] classes), run on
the text of the repo's published grammar file as data, at character level with full CFG
semantics (set of end positions, memoised).

Why character level equals ANTLR's token level here: every literal of the grammar is
either an element symbol `Upper lower?`, an all-lowercase keyword (mass, rad), a single
punctuation character, or a numeral; no rule places two numerals or two letters-only tokens
next to each other except element symbols, and a lower-case letter alone is never a symbol,
so maximal-munch tokenisation and character-level derivation accept the same strings
(self-tested below on a frozen list of examples; disagreement = harness error, exit 2).

Part 2: hand-written denotation (formula expansion with the own periodic table, stable
block order by Z, 1-based indices, duplicate-attribute / self-bond / index-range rejection).
"""

from __future__ import annotations

import os
import re
import sys

from .ptable import Z_OF, selftest_against_ebnf

REPO = os.environ.get("VERIF_REPO", "/repo")
EBNF_PATH = os.path.join(REPO, "tucan", "parser", "tucan.ebnf")



class GrammarError(Exception):
    pass


# ---- EBNF parsing ---------------------------------------------------------------

_TOK = re.compile(r'\s*(?:(::=)|("[^"]*")|(\[[^\]]+\])|([A-Za-z_][A-Za-z_0-9]*)|([|?*+()]))')


def _tokenize_rhs(s):
    pos = 0
    out = []
    s = s.rstrip()
    while pos < len(s):
        m = _TOK.match(s, pos)
        if not m:
            raise GrammarError(f"cannot tokenize EBNF at {s[pos:pos+20]!r}")
        pos = m.end()
        if m.group(2) is not None:
            out.append(("lit", m.group(2)[1:-1]))
        elif m.group(3) is not None:
            out.append(("cls", m.group(3)[1:-1]))
        elif m.group(4) is not None:
            out.append(("ref", m.group(4)))
        elif m.group(5) is not None:
            out.append(("op", m.group(5)))
        else:
            raise GrammarError("unexpected ::= in right-hand side")
    return out


def _parse_alt(toks, i):
    seqs = []
    seq, i = _parse_seq(toks, i)
    seqs.append(seq)
    while i < len(toks) and toks[i] == ("op", "|"):
        seq, i = _parse_seq(toks, i + 1)
        seqs.append(seq)
    return ("alt", seqs), i


def _parse_seq(toks, i):
    items = []
    while i < len(toks) and toks[i] not in (("op", "|"), ("op", ")")):
        t = toks[i]
        if t == ("op", "("):
            node, i = _parse_alt(toks, i + 1)
            if i >= len(toks) or toks[i] != ("op", ")"):
                raise GrammarError("unbalanced parenthesis in EBNF")
            i += 1
        elif t[0] in ("lit", "cls", "ref"):
            node = t
            i += 1
        else:
            raise GrammarError(f"unexpected {t} in EBNF")
        while i < len(toks) and toks[i][0] == "op" and toks[i][1] in "?*+":
            node = (toks[i][1], node)
            i += 1
        items.append(node)
    return ("seq", items), i


def load_grammar(text):
    rules = {}
    for line in text.splitlines():
        if not line.strip():
            continue
        if "::=" not in line:
            raise GrammarError(f"line without ::= in EBNF: {line!r}")
        name, rhs = line.split("::=", 1)
        toks = _tokenize_rhs(rhs)
        node, i = _parse_alt(toks, 0)
        if i != len(toks):
            raise GrammarError(f"trailing tokens in rule {name.strip()}")
        rules[name.strip()] = node
    return rules


def _cls_match(spec, ch):
    i = 0
    while i < len(spec):
        if i + 2 < len(spec) and spec[i + 1] == "-":
            if spec[i] <= ch <= spec[i + 2]:
                return True
            i += 3
        else:
            if spec[i] == ch:
                return True
            i += 1
    return False


class Recognizer:
    def __init__(self, rules, start="tucan"):
        self.rules = rules
        self.start = start

    def accepts(self, s):
        memo = {}
        rules = self.rules

        def m(node, pos):
            kind = node[0]
            if kind == "lit":
                lit = node[1]
                return {pos + len(lit)} if s.startswith(lit, pos) else set()
            if kind == "cls":
                return {pos + 1} if pos < len(s) and _cls_match(node[1], s[pos]) else set()
            if kind == "ref":
                key = (node[1], pos)
                if key not in memo:
                    memo[key] = set()  # no left recursion in this grammar
                    memo[key] = m(rules[node[1]], pos)
                return memo[key]
            if kind == "seq":
                cur = {pos}
                for it in node[1]:
                    nxt = set()
                    for p in cur:
                        nxt |= m(it, p)
                    cur = nxt
                    if not cur:
                        break
                return cur
            if kind == "alt":
                out = set()
                for a in node[1]:
                    out |= m(a, pos)
                return out
            if kind == "?":
                return {pos} | m(node[1], pos)
            if kind in "*+":
                out = set() if kind == "+" else {pos}
                frontier = {pos}
                seen = set()
                while frontier:
                    nxt = set()
                    for p in frontier:
                        for q in m(node[1], p):
                            if q not in seen and q != p:
                                seen.add(q)
                                nxt.add(q)
                    out |= nxt
                    frontier = nxt
                return out
            raise GrammarError(kind)

        return len(s) in m(("ref", self.start), 0)


_RECOGNIZER = None


def recognizer():
    global _RECOGNIZER
    if _RECOGNIZER is None:
        text = open(EBNF_PATH).read()
        err = selftest_against_ebnf(text)
        if err:
            raise GrammarError(err)
        _RECOGNIZER = Recognizer(load_grammar(text))
        _selftest(_RECOGNIZER)
    return _RECOGNIZER


# frozen accept / reject examples (literals in the style of the repo's grammar tests)
_ACCEPT = ["/", "//", "C/", "CH4/(1-5)(2-5)(3-5)(4-5)", "H2O/(1-3)(2-3)", "C2H6O/(1-7)/(7:mass=13)",
           "ClH/(1-2)", "CHe/", "CCl4/", "C12/", "H2/(1-2)/(1:mass=2)(2:mass=2,rad=1)", "Og/", "CnCs/",
           "C2/(1-2)(2-1)(1-2)", "HHe/", "C/(1-1)", "C/(5-6)", "C/(1-2)/(9:rad=1)", "C10H10/", "C/(10-100)"]
_REJECT = ["", "C", "C1/", "C01/", "HC/", "OH2/", "C/ ", " C/", "C/(1-2", "C/(0-1)", "C/(1-2)/(1:mas=2)", "c/",
           "C/(1-2)/(1:mass=0)", "C/(1-2)/(1:mass=02)", "C/(01-2)", "Xy/", "D2O/", "C/(1-2)//", "C/(1:mass=2)",
           "C/(1-2)/(1-2)", "C/\n", "C/(1-2)/(1:mass=2,)", "C/(1-2)/()", "CH4", "C/(1–2)", "C/(1-2)/(1:mass=2)(", "He2H/"]


def _selftest(rec):
    for s in _ACCEPT:
        if not rec.accepts(s):
            raise GrammarError(f"reference recogniser rejects frozen accept example {s!r}")
    for s in _REJECT:
        if rec.accepts(s):
            raise GrammarError(f"reference recogniser accepts frozen reject example {s!r}")


# ---- denotation ---------------------------------------------------------------------

_EL = re.compile(r"([A-Z][a-z]?)(\d*)")
_TUP = re.compile(r"\((\d+)-(\d+)\)")
_ATT = re.compile(r"\((\d+):([^)]*)\)")


class Rejected(Exception):
    pass


def split_sections(s):
    parts = s.split("/")
    formula = parts[0]
    tuples = parts[1] if len(parts) > 1 else ""
    attrs = parts[2] if len(parts) > 2 else None
    return formula, tuples, attrs


def read(s, max_atoms=None):
    """Reference reading of a TUCAN string.  Returns {"atoms": [Z per node 0..n-1 in block
    order by Z], "bonds": set of frozensets, "attrs": {node: {"mass": v, "rad": v}},
    "formula": [(symbol, count) as written]} or raises Rejected(reason)."""
    if not recognizer().accepts(s):
        raise Rejected("not a sentence of the grammar")
    formula, tuples, attrs = split_sections(s)
    written = [(m.group(1), int(m.group(2)) if m.group(2) else 1) for m in _EL.finditer(formula)]
    total = sum(c for _, c in written)
    if max_atoms is not None and total > max_atoms:
        raise ValueError("formula too large for the harness bound")
    zs = []
    for sym, c in written:
        zs.extend([Z_OF[sym]] * c)
    zs.sort()  # blocks of increasing atomic number
    n = len(zs)
    bonds = set()
    for m in _TUP.finditer(tuples):
        a, b = int(m.group(1)), int(m.group(2))
        if a == b:
            raise Rejected("self-bond")
        if a > n or b > n:
            raise Rejected("bond index out of range")
        bonds.add(frozenset((a - 1, b - 1)))
    at = {}
    if attrs is not None:
        for m in _ATT.finditer(attrs):
            idx = int(m.group(1))
            d = at.setdefault(idx - 1, {})
            for kv in m.group(2).split(","):
                k, v = kv.split("=")
                if k in d:
                    raise Rejected("attribute set twice")
                d[k] = int(v)
        for idx in at:
            if idx >= n:
                raise Rejected("attribute index out of range")
    return {"atoms": zs, "bonds": bonds, "attrs": at, "formula": written, "tuples_raw": [(int(m.group(1)), int(m.group(2))) for m in _TUP.finditer(tuples)],
            "attr_blocks_raw": [(int(m.group(1)), [kv.split("=") for kv in m.group(2).split(",")]) for m in _ATT.finditer(attrs or "")], "has_third": attrs is not None}
