#!/usr/bin/env python3
"""Prints the sub-agent prompt for property <ID> with worktree <WT> (property text only)."""
import json, sys
pid, wt = sys.argv[1], sys.argv[2]
tmpl = open(sys.argv[3] if len(sys.argv) > 3 else "/verif/tools/agent_prompt_round1.txt").read()
for l in open("/verif/properties.jsonl"):
    p = json.loads(l)
    if p["id"] == pid:
        print(tmpl.replace("{WT}", wt).replace("{ID}", pid).replace("{TITLE}", p["title"]).replace("{STATEMENT}", p["statement"])
              .replace("{QUANT}", p["quantifier"]["text"]).replace("{FILES}", ", ".join(p["anchors"]["files"])))
