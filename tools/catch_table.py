#!/usr/bin/env python3
"""Prints the markdown catch tables (seeded changes from meta.json, hand-written mutants from
sensitivity/results.jsonl) for DESIGN.md section 6.4."""
import json, os, re
ROOT = os.path.dirname(os.path.dirname(os.path.abspath(__file__)))
print("| seeded change | property | what it needs to manifest (from the author's notes) | caught by (quick tier, seed 1) | first report |")
print("|---|---|---|---|---|")
for name in sorted(os.listdir(os.path.join(ROOT, "seeded"))):
    mp = os.path.join(ROOT, "seeded", name, "meta.json")
    if not os.path.exists(mp):
        continue
    m = json.load(open(mp))
    notes = m.get("needs_to_manifest", "")
    # first informative sentence of the notes
    txt = " ".join(l.strip("-*# ").strip() for l in notes.splitlines() if l.strip())
    txt = re.sub(r"\s+", " ", txt)[:230].replace("|", "/")
    det = m.get("detected_by", {})
    caught = [f"{k} ({v['secs']} s)" for k, v in sorted(det.items()) if v["rc"] == 1]
    missed = [k for k, v in sorted(det.items()) if v["rc"] == 0]
    first = ""
    for k, v in sorted(det.items()):
        if v["rc"] == 1 and v.get("first"):
            first = v["first"][0][:110].replace("|", "/")
            break
    cell = ", ".join(caught) if caught else "**none**"
    if missed:
        cell += " / silent: " + ", ".join(missed)
    print(f"| {name} | {m['property']} | {txt} | {cell} | `{first}` |")
rp = os.path.join(ROOT, "sensitivity", "results.jsonl")
if os.path.exists(rp):
    print()
    print("| hand-written mutant | kind | repo suite | caught by | silent |")
    print("|---|---|---|---|---|")
    last = {}
    for l in open(rp):
        r = json.loads(l)
        last.setdefault(r["mutant"], r)["results"].update(r["results"])
        last[r["mutant"]]["tests"] = r["tests"] if r["tests"] != "-" else last[r["mutant"]].get("tests", "-")
    for name, r in last.items():
        c = [f"{k} ({v['secs']} s)" for k, v in sorted(r["results"].items()) if v["rc"] == 1]
        s = [k for k, v in sorted(r["results"].items()) if v["rc"] == 0]
        e = [k for k, v in sorted(r["results"].items()) if v["rc"] not in (0, 1)]
        t = re.sub(r"=+", "", r.get("tests", "-")).strip()
        print(f"| {name} | {r['kind']} | {t} | {', '.join(c) or '-'} | {', '.join(s) or '-'}{' ERR:' + ','.join(e) if e else ''} |")
