#!/usr/bin/env python3
"""Prints a per-property summary (from the committed quick-tier evidence) for DESIGN.md 6.7."""
import json, os
ROOT = os.path.dirname(os.path.dirname(os.path.abspath(__file__)))
man = {c["property_id"]: c for c in json.load(open(os.path.join(ROOT, "MANIFEST.json")))["checks"]}
print("| id | deciding method | evaluations | distinct non-trivial | wall (s) | reached (maxima / sweeps) |")
print("|---|---|---|---|---|---|")
for i in range(1, 17):
    pid = f"C{i:02d}"
    e = json.load(open(os.path.join(ROOT, "evidence", pid + ".json")))
    c = e["coverage"]
    extra = []
    for k, v in sorted(c.get("maxima", {}).items()):
        extra.append(f"{k}={v}")
    for k in ("smallscope", "exhaustive_subdomain", "neighbourhood_strings", "element_pairs_swept", "enumerated_classes"):
        if k in c:
            extra.append(f"{k}: {c[k]}")
    print(f"| {pid} | {man[pid]['technique']} | {c['evaluations']} | {c['distinct_nontrivial']} | {e['wall_s']} | {'; '.join(extra)[:400]} |")
