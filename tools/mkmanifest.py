#!/usr/bin/env python3
"""Regenerates MANIFEST.json from the property modules present under vlib/props."""
import importlib
import json
import os
import sys

ROOT = os.path.dirname(os.path.dirname(os.path.abspath(__file__)))
sys.path.insert(0, ROOT)
ALL = [f"C{i:02d}" for i in range(1, 17)]
checks = []
na = []
for pid in ALL:
    path = os.path.join(ROOT, "vlib", "props", pid.lower() + ".py")
    if not os.path.exists(path):
        na.append({"property_id": pid, "reason": "check not built yet (planned, see DESIGN.md section 3)"})
        continue
    src = open(path).read()
    ns = {}
    # read the MANIFEST dict literal without importing the library under test
    start = src.find("MANIFEST = ")
    meta = {}
    if start >= 0:
        end = src.find("\n}\n", start)
        exec(src[start : end + 3], ns)
        meta = ns["MANIFEST"]
    checks.append(
        {
            "property_id": pid,
            "quick_cmd": f"./check {pid} --tier quick",
            "thorough_cmd": f"./check {pid} --tier thorough",
            "evidence_file": f"/verif/evidence/{pid}.json",
            "replay_cmd_template": f"./check {pid} --replay {{path}}",
            "engine": "hypothesis-pbt",
            "level_claimed": {
                "category": "exploration",
                "text": meta.get("text", "generated-input search against an independent oracle"),
                "design_ref": f"DESIGN.md section 3, {pid}",
            },
            "level_note": meta.get("note", "search, not proof"),
            "technique": meta.get("technique", "property-based testing (Hypothesis)"),
        }
    )
man = {
    "version": 1,
    "setup_cmd": "sh ./setup.sh",
    "hooks": {
        "guard": "TUCAN_VERIF",
        "enable": "none needed: every observation point is public API of the pure-Python package; checks import tucan from /repo's working tree",
        "baseline_off_cmd": "cd /repo && /venv/bin/python -m pytest -q -p no:cacheprovider --timeout=900 --continue-on-collection-errors",
        "source_commits": [],
        "add_only": True,
    },
    "engines": [
        {"name": "hypothesis-pbt", "path": "/verif/vlib", "serves_properties": [c["property_id"] for c in checks],
         "kind_free_text": "Hypothesis 6.168 strategies over an abstract molecule model, own molfile renderers, own EBNF interpreter, own isomorphism code; 16 sharded processes; budgeted shrinking; optional Atheris campaigns over the same properties"},
        {"name": "atheris-campaign", "path": "/verif/vlib/fuzz.py", "serves_properties": ["C05", "C07", "C08", "C09", "C10", "C11"],
         "kind_free_text": "thorough tier only: Atheris 3.1 / libFuzzer, tucan instrumented, target = the same Hypothesis property via fuzz_one_input (oracle inside the target); skipped with a note if atheris is not installed"},
        {"name": "finite-enumeration", "path": "/verif/vlib/iso.py", "serves_properties": ["C01", "C02", "C03", "C04", "C10", "C13"],
         "kind_free_text": "complete enumeration of small finite sub-domains: all coloured graphs up to isomorphism with n<=4..6 (C01 under all n! relabelings, C02 injectivity, C03 round trip, C13 partition oracles), all 117 neighbouring element pairs (C01, C04), complete single-token edit neighbourhoods of drawn sentences (C10)"},
    ],
    "checks": checks,
    "notes": "Genuine defects repaired by fix: commits are listed in known_findings.txt. ./check <ID> --tier quick|thorough; replay with --replay <file>.",
    "not_applicable": na,
}
json.dump(man, open(os.path.join(ROOT, "MANIFEST.json"), "w"), indent=1)
print("checks:", [c["property_id"] for c in checks], "n/a:", [x["property_id"] for x in na])
