#!/usr/bin/env python3
"""Seeded-change workflow.

  tools/seeded.py import <seed_dir> <i> <name> <property>   confirm a sub-agent's change in a
        scratch worktree (suite passes with it, demo fails with it / passes without) and store it
        as seeded/<name>/{patch.diff, demo.py, notes.md, meta.json}
  tools/seeded.py run <name>|all [--checks C01,C02] [--all-checks]
        apply the change to /repo (git apply), run the checks (evidence/replays redirected to a
        scratch dir so committed evidence is untouched), undo it straight afterwards
        (git checkout -- .) and record which checks raised VIOLATION in meta.json
"""

from __future__ import annotations

import json
import os
import shutil
import subprocess
import sys
import time

ROOT = os.path.dirname(os.path.dirname(os.path.abspath(__file__)))
SEEDED = os.path.join(ROOT, "seeded")
SCRATCH = "/tmp/verif_seedcheck"
OUT = "/tmp/verif_seedout"


def sh(cmd, **kw):
    return subprocess.run(cmd, shell=True, text=True, capture_output=True, **kw)


def do_import(seed_dir, i, name, prop):
    patch = os.path.join(seed_dir, f"patch{i}.diff")
    demo = os.path.join(seed_dir, f"demo{i}.py")
    notes = os.path.join(seed_dir, f"notes{i}.md")
    sh(f"git -C /repo worktree remove --force {SCRATCH}")
    shutil.rmtree(SCRATCH, ignore_errors=True)
    r = sh(f"git -C /repo worktree add --detach {SCRATCH} HEAD")
    assert r.returncode == 0, r.stderr
    ran = []
    try:
        os.makedirs(os.path.join(SCRATCH, "seed"), exist_ok=True)
        shutil.copy(demo, os.path.join(SCRATCH, "seed", "demo.py"))
        py = f"cd {SCRATCH} && PYTHONPATH={SCRATCH} /venv/bin/python"
        r0 = sh(f"{py} seed/demo.py")
        ran.append(f"demo on unmodified tree: exit {r0.returncode}")
        r = sh(f"git -C {SCRATCH} apply {patch}")
        if r.returncode:
            print("patch does not apply:", r.stderr)
            return 1
        r1 = sh(f"{py} seed/demo.py")
        ran.append(f"demo with change: exit {r1.returncode}")
        t = sh(f"{py} -m pytest -q -p no:cacheprovider -n 12 2>&1 | tail -1")
        ran.append(f"repo test-suite with change: {t.stdout.strip()}")
        ok = r0.returncode == 0 and r1.returncode != 0 and "passed" in t.stdout and "failed" not in t.stdout and "error" not in t.stdout
        print("\n".join(ran))
        if not ok:
            print("NOT CONFIRMED - not kept")
            return 1
        d = os.path.join(SEEDED, name)
        os.makedirs(d, exist_ok=True)
        shutil.copy(patch, os.path.join(d, "patch.diff"))
        shutil.copy(demo, os.path.join(d, "demo.py"))
        if os.path.exists(notes):
            shutil.copy(notes, os.path.join(d, "notes.md"))
        first = (r1.stdout + r1.stderr).strip().splitlines()
        meta = {"name": name, "property": prop, "origin": "independent sub-agent given only the property text and a scratch worktree",
                "needs_to_manifest": open(notes).read()[:1500] if os.path.exists(notes) else "",
                "confirmed": ran, "demo_output_with_change": first[:5], "detected_by": {}, "base_commit": sh("git -C /repo rev-parse --short HEAD").stdout.strip()}
        json.dump(meta, open(os.path.join(d, "meta.json"), "w"), indent=1)
        print("kept as", d)
        return 0
    finally:
        sh(f"git -C /repo worktree remove --force {SCRATCH}")
        shutil.rmtree(SCRATCH, ignore_errors=True)


def do_run(name, checks, seed=1):
    d = os.path.join(SEEDED, name)
    meta = json.load(open(os.path.join(d, "meta.json")))
    st = sh("git -C /repo status --porcelain --untracked-files=no").stdout.strip()
    if st:
        sys.exit("/repo has uncommitted changes; refusing to apply a seeded change")
    r = sh(f"git -C /repo apply {os.path.join(d, 'patch.diff')}")
    if r.returncode:
        print(f"{name}: patch no longer applies: {r.stderr.strip()[:200]}")
        return
    try:
        env = dict(os.environ, VERIF_OUT=OUT, VERIF_SEED=str(seed))
        for pid in checks:
            t = time.time()
            p = subprocess.run(["./check", pid, "--tier", "quick"], cwd=ROOT, env=env, text=True, capture_output=True)
            subs = [ln.strip()[:160] for ln in p.stdout.splitlines() if ln.startswith("  [")]
            meta["detected_by"][pid] = {"rc": p.returncode, "seed": seed, "secs": round(time.time() - t), "first": subs[:2]}
            print(f"{name:28s} {pid} rc={p.returncode} {round(time.time()-t):4d}s {subs[:1]}", flush=True)
    finally:
        sh("git -C /repo checkout -- .")
        shutil.rmtree(OUT, ignore_errors=True)
    json.dump(meta, open(os.path.join(d, "meta.json"), "w"), indent=1)


CANARIES = os.path.join(ROOT, "canaries")


def do_import_canary(seed_dir, i, name):
    """A behaviour-preserving change from a sub-agent: kept if it applies and the repo suite passes."""
    patch = os.path.join(seed_dir, f"patch{i}.diff")
    notes = os.path.join(seed_dir, f"notes{i}.md")
    sh(f"git -C /repo worktree remove --force {SCRATCH}")
    shutil.rmtree(SCRATCH, ignore_errors=True)
    r = sh(f"git -C /repo worktree add --detach {SCRATCH} HEAD")
    assert r.returncode == 0, r.stderr
    try:
        r = sh(f"git -C {SCRATCH} apply {patch}")
        if r.returncode:
            print("patch does not apply:", r.stderr)
            return 1
        t = sh(f"cd {SCRATCH} && PYTHONPATH={SCRATCH} /venv/bin/python -m pytest -q -p no:cacheprovider -n 12 2>&1 | tail -1")
        print(t.stdout.strip())
        if "passed" not in t.stdout or "failed" in t.stdout or "error" in t.stdout:
            print("NOT CONFIRMED - not kept")
            return 1
        d = os.path.join(CANARIES, name)
        os.makedirs(d, exist_ok=True)
        shutil.copy(patch, os.path.join(d, "patch.diff"))
        if os.path.exists(notes):
            shutil.copy(notes, os.path.join(d, "notes.md"))
        meta = {"name": name, "kind": "behaviour-preserving change (false-alarm canary)", "origin": "independent sub-agent asked for behaviour-preserving refactorings",
                "claim": open(notes).read()[:1500] if os.path.exists(notes) else "", "confirmed": [f"repo test-suite with change: {t.stdout.strip()}"], "checks": {},
                "base_commit": sh("git -C /repo rev-parse --short HEAD").stdout.strip()}
        json.dump(meta, open(os.path.join(d, "meta.json"), "w"), indent=1)
        print("kept as", d)
        return 0
    finally:
        sh(f"git -C /repo worktree remove --force {SCRATCH}")
        shutil.rmtree(SCRATCH, ignore_errors=True)


def do_run_canary(name, checks, seed=1):
    d = os.path.join(CANARIES, name)
    meta = json.load(open(os.path.join(d, "meta.json")))
    st = sh("git -C /repo status --porcelain --untracked-files=no").stdout.strip()
    if st:
        sys.exit("/repo has uncommitted changes; refusing to apply a change")
    r = sh(f"git -C /repo apply {os.path.join(d, 'patch.diff')}")
    if r.returncode:
        print(f"{name}: patch no longer applies")
        return
    try:
        env = dict(os.environ, VERIF_OUT=OUT, VERIF_SEED=str(seed))
        for pid in checks:
            t = time.time()
            p = subprocess.run(["./check", pid, "--tier", "quick"], cwd=ROOT, env=env, text=True, capture_output=True)
            subs = [ln.strip()[:200] for ln in p.stdout.splitlines() if ln.startswith("  [")]
            meta["checks"][pid] = {"rc": p.returncode, "seed": seed, "secs": round(time.time() - t), "first": subs[:2]}
            print(f"{name:28s} {pid} rc={p.returncode} {round(time.time()-t):4d}s {subs[:1]}", flush=True)
    finally:
        sh("git -C /repo checkout -- .")
        shutil.rmtree(OUT, ignore_errors=True)
    json.dump(meta, open(os.path.join(d, "meta.json"), "w"), indent=1)


def main():
    if sys.argv[1] == "import-canary":
        sys.exit(do_import_canary(sys.argv[2], sys.argv[3], sys.argv[4]))
    if sys.argv[1] == "run-canary":
        names = sorted(os.listdir(CANARIES)) if sys.argv[2] == "all" else sys.argv[2].split(",")
        allc = [f"C{i:02d}" for i in range(1, 17)]
        for n in names:
            if os.path.exists(os.path.join(CANARIES, n, "meta.json")):
                do_run_canary(n, allc)
        return
    if sys.argv[1] == "import":
        sys.exit(do_import(sys.argv[2], sys.argv[3], sys.argv[4], sys.argv[5]))
    if sys.argv[1] == "run":
        names = sorted(os.listdir(SEEDED)) if sys.argv[2] == "all" else sys.argv[2].split(",")
        allc = [f"C{i:02d}" for i in range(1, 17)]
        checks = None
        if "--checks" in sys.argv:
            checks = sys.argv[sys.argv.index("--checks") + 1].split(",")
        for n in names:
            if not os.path.exists(os.path.join(SEEDED, n, "meta.json")):
                continue
            prop = json.load(open(os.path.join(SEEDED, n, "meta.json")))["property"]
            do_run(n, checks or (allc if "--all-checks" in sys.argv else [prop]))


if __name__ == "__main__":
    main()
