#!/usr/bin/env python3
"""Random search for small graphs whose colour refinement needs many rounds relative to their
size (> n/2 + 1).  Writes catalogue/long_refinement.json (committed; used by gens.fam_slowwl)."""
import json, multiprocessing as mp, os, random, sys
ROOT = os.path.dirname(os.path.dirname(os.path.abspath(__file__)))
sys.path.insert(0, ROOT)
from vlib.mol import Mol


def trial(seed):
    rnd = random.Random(seed)
    out = []
    for _ in range(4000):
        n = rnd.randint(7, 36)
        dmax = rnd.choice([3, 3, 3, 4])
        deg = [0] * n
        es = set()
        for v in range(1, n):
            c = [u for u in range(v) if deg[u] < dmax]
            u = rnd.choice(c[-rnd.choice([1, 2, 3, 5]):])
            es.add((u, v)); deg[u] += 1; deg[v] += 1
        for _ in range(rnd.randint(0, n)):
            c = [u for u in range(n) if deg[u] < dmax]
            if len(c) < 2:
                break
            a, b = rnd.sample(c, 2)
            if (min(a, b), max(a, b)) in es:
                continue
            es.add((min(a, b), max(a, b))); deg[a] += 1; deg[b] += 1
        m = Mol.simple([6] * n, sorted(es))
        _, r = m.wl()
        if r > n // 2 + 1 and r >= 0.62 * n:
            out.append((r / n, n, r, sorted(es)))
    return out


if __name__ == "__main__":
    with mp.Pool(16) as pool:
        res = [x for part in pool.map(trial, range(int(sys.argv[1]) if len(sys.argv) > 1 else 64)) for x in part]
    res.sort(reverse=True)
    keep, seen = [], set()
    for ratio, n, r, es in res:
        key = (n, r)
        if sum(1 for k in seen if k[0] == n) >= 8:
            continue
        seen.add((n, r, len(keep)))
        keep.append({"n": n, "rounds": r, "edges": es})
        if len(keep) >= 200:
            break
    os.makedirs(os.path.join(ROOT, "catalogue"), exist_ok=True)
    json.dump(keep, open(os.path.join(ROOT, "catalogue", "long_refinement.json"), "w"))
    print(len(res), "found;", len(keep), "kept; best ratios", [round(x[0], 2) for x in res[:8]], "sizes", sorted({k["n"] for k in keep}))
