#!/usr/bin/env python3
"""Sensitivity study: applies hand-written mutants (and false-alarm canaries) to a scratch
worktree of /repo (never to /repo itself), runs the named checks against it with
VERIF_REPO / VERIF_OUT redirected, and prints a catch table.

usage: tools/mutants.py [--only name,name] [--checks C01,C02 | --all-checks] [--tests]
"""

from __future__ import annotations

import argparse
import json
import os
import shutil
import subprocess
import sys
import time

ROOT = os.path.dirname(os.path.dirname(os.path.abspath(__file__)))
SCRATCH = "/tmp/verif_mutrepo"
OUT = "/tmp/verif_mutout"

CAN = "tucan/canonicalization.py"
GU = "tucan/graph_utils.py"
SER = "tucan/serialization.py"
PAR = "tucan/parser/parser.py"
V3 = "tucan/io/molfile_v3000_reader.py"
V2 = "tucan/io/molfile_v2000_reader.py"
WR = "tucan/io/molfile_writer.py"

# name, kind (mutant|canary), expected checks, [(file, old, new), ...]
MUTANTS = [
    ("d1_revert", "mutant", ["C01", "C03", "C04", "C09", "C11"], [(CAN, 'return dict(zip(m_canonical.vs["_nx_name"], range(m_canonical.vcount())))', 'return dict(zip(m_igraph.vs["_nx_name"], canonical_permutation))')]),
    ("bliss_no_color", "mutant", ["C01", "C04"], [(CAN, "m_igraph.canonical_permutation(color=partitions)", "m_igraph.canonical_permutation()")]),
    ("refine_cap_12", "mutant", ["C13"], [(CAN, "    while True:\n        m_refined = partition_molecule_by_attribute(m, PARTITION)\n", "    for _round in range(12):\n        m_refined = partition_molecule_by_attribute(m, PARTITION)\n"),
                                          (CAN, "        m = m_refined\n", "        m = m_refined\n    yield m_refined\n")]),
    ("refine_cap_100", "mutant", ["C13", "C15"], [(CAN, "    while True:\n        m_refined = partition_molecule_by_attribute(m, PARTITION)\n", "    for _round in range(100):\n        m_refined = partition_molecule_by_attribute(m, PARTITION)\n"),
                                                   (CAN, "        m = m_refined\n", "        m = m_refined\n    yield m_refined\n")]),
    ("partition_by_Z_only", "mutant", ["C01", "C13"], [(CAN, "partition_molecule_by_attribute(m, INVARIANT_CODE)", 'partition_molecule_by_attribute(m, "atomic_number")')]),
    ("partition_no_copy", "mutant", ["C12"], [(CAN, "m_partitioned = m.copy()", "m_partitioned = m")]),
    ("canon_relabel_inplace", "mutant", ["C12"], [(CAN, "return nx.relabel_nodes(m_refined, canonical_labels, copy=True)", "return nx.relabel_nodes(m_refined, canonical_labels, copy=False)")]),
    ("d5_revert", "mutant", ["C15"], [(CAN, "        m = m_refined\n", "        yield from refine_partitions(m_refined)\n        return\n")]),
    ("neighbours_unsorted", "mutant", ["C01", "C13"], [(GU, "    attr_neighbors = sorted(\n        [m.nodes[n][attribute] for n in m.neighbors(atom)], reverse=True\n    )", "    attr_neighbors = [m.nodes[n][attribute] for n in m.neighbors(atom)]")]),
    ("rad_not_in_invariant", "mutant", ["C01", "C13"], [(GU, "        InvariantCodeDefinition(RAD, 0),\n", "")]),
    ("chg_in_invariant", "mutant", ["C06"], [(GU, "        InvariantCodeDefinition(RAD, 0),\n", '        InvariantCodeDefinition(RAD, 0),\n        InvariantCodeDefinition("chg", 0),\n')]),
    ("permute_inplace", "mutant", ["C16"], [(GU, "m_relabeled = nx.relabel_nodes(m, dict(zip(permuted_labels, labels)), copy=True)", "m_relabeled = nx.relabel_nodes(m, dict(zip(permuted_labels, labels)), copy=False)")]),
    ("permute_no_sort", "mutant", ["C16"], [(GU, "    return _sort_molecule_by_label(m_relabeled)", "    return m_relabeled")]),
    ("permute_ignores_seed", "mutant", ["C16"], [(GU, "    random.seed(\n        random_seed\n    )", "    random.seed()")]),
    ("permute_drops_edge_data", "mutant", ["C16"], [(GU, "m_sorted_by_label.add_edges_from(m.edges(data=True))", "m_sorted_by_label.add_edges_from(m.edges())")]),
    ("sort_tiebreak_iteration", "mutant", ["C01"], [(GU, "    sorted_attr, labels_sorted_by_attr = zip(\n        *sorted(attr_with_labels)\n    )", "    sorted_attr, labels_sorted_by_attr = zip(\n        *sorted(attr_with_labels, key=lambda t: t[0])\n    )")]),
    ("ser_first_attr_only", "mutant", ["C03", "C02"], [(SER, "        node_attribute_string += f\"{','.join(available_attrs)})\"", "        node_attribute_string += f\"{','.join(available_attrs[:1])})\"")]),
    ("ser_tuples_unsorted", "mutant", ["C05", "C01"], [(SER, "sorted_edges = sorted([sorted(edge) for edge in m.edges()])", "sorted_edges = [sorted(edge) for edge in m.edges()]")]),
    ("ser_edge_orientation", "mutant", ["C05"], [(SER, "sorted_edges = sorted([sorted(edge) for edge in m.edges()])", "sorted_edges = sorted([list(edge) for edge in m.edges()])")]),
    ("d3_revert", "mutant", ["C05", "C07"], [(SER, 'if attrs.get(attr)  # explicit zeros (e.g., MASS=0 in a molfile) mean "not set"', "if attr in attrs")]),
    ("ser_formula_set_order", "mutant", ["C14", "C05"], [(SER, "    for k, v in dict(sorted(element_counts.items())).items():", "    for k in set(element_counts):\n        v = element_counts[k]")]),
    ("ser_emits_chg", "mutant", ["C06", "C05"], [(SER, "    RAD: \"rad\",\n}", "    RAD: \"rad\",\n    \"chg\": \"chg\",\n}")]),
    ("ser_explored_leak", "mutant", ["C12"], [(SER, "    nx.set_node_attributes(m, False, EXPLORED)\n\n    # outer loop", "    if not any(EXPLORED in d for _, d in m.nodes(data=True)):\n        nx.set_node_attributes(m, False, EXPLORED)\n\n    # outer loop"),
                                              (SER, "    nx.set_node_attributes(m, False, EXPLORED)\n    return nx.relabel_nodes(m, final_labels, copy=True)", "    return nx.relabel_nodes(m, final_labels, copy=True)")]),
    ("ser_final_labels_unsorted_neighbours", "mutant", ["C01"], [(SER, "neighbor_traversal_order.extend(sorted(neighbors_this_priority))", "neighbor_traversal_order.extend(neighbors_this_priority)")]),
    ("ser_hill_H_alphabetical", "mutant", ["C05"], [(SER, "        hydrogen_count = element_counts.pop(\"H\", None)\n        if hydrogen_count:", "        hydrogen_count = None\n        if hydrogen_count:")]),
    ("ser_threshold_1000", "mutant", ["C05"], [(SER, "    sorted_edges = sorted([sorted(edge) for edge in m.edges()])", "    sorted_edges = sorted([sorted(edge) for edge in m.edges()], key=lambda e: (str(e[0]), str(e[1])) if m.number_of_nodes() > 999 else e)")]),
    ("par_index_off_by_one", "mutant", ["C10"], [(PAR, "        if index >= len(self._atoms):", "        if index > len(self._atoms):")]),
    ("par_selfloop_allowed", "mutant", ["C10"], [(PAR, "        if index1 == index2:", "        if False and index1 == index2:")]),
    ("par_duplicate_attr_allowed", "mutant", ["C10"], [(PAR, "        if attr_key in attrs_for_node:", "        if False and attr_key in attrs_for_node:")]),
    ("par_no_sort", "mutant", ["C10", "C03"], [(PAR, "sorted_atoms = sorted(self._atoms, key=lambda a: a[ATOMIC_NUMBER])", "sorted_atoms = list(self._atoms)")]),
    ("par_sort_by_symbol", "mutant", ["C10", "C03"], [(PAR, "sorted_atoms = sorted(self._atoms, key=lambda a: a[ATOMIC_NUMBER])", "sorted_atoms = sorted(self._atoms, key=lambda a: a[ELEMENT_SYMBOL])")]),
    ("par_join_before_sort", "mutant", ["C10", "C03"], [(PAR, "            atom_attrs = atoms_dict[index]\n", "            atom_attrs = self._atoms[index]\n")]),
    ("par_swallow_errors", "mutant", ["C10"], [(PAR, "        self._add_bond(index1, index2)", "        if max(index1, index2) <= 10**6:\n            self._add_bond(index1, index2)")]),
    ("par_shared_listener_state", "mutant", ["C14", "C10"], [(PAR, "class TucanListenerImpl(tucanListener):\n    def __init__(self):\n        self._atoms = []\n        self._bonds = []\n        self._node_attributes = {}  # becomes a dictionary of dictionaries",
                                                             "_SHARED_ATTRS: dict = {}\n\n\nclass TucanListenerImpl(tucanListener):\n    def __init__(self):\n        self._atoms = []\n        self._bonds = []\n        self._node_attributes = _SHARED_ATTRS  # becomes a dictionary of dictionaries"),
                                                            (PAR, "        return graph_from_molecule(atoms_dict, bonds_dict)", "        self._node_attributes.clear()\n        return graph_from_molecule(atoms_dict, bonds_dict)")]),
    ("v3_splice_lstrip", "mutant", ["C07", "C09"], [(V3, "line_deque.appendleft(curr_line[0:-1] + next_line[7:])", "line_deque.appendleft(curr_line[0:-1] + next_line[7:].lstrip())")]),
    ("v3_endpts_cap5", "mutant", ["C07"], [(V3, "for end_atom_index in numbers[1:]]", "for end_atom_index in numbers[1:6]]")]),
    ("d2_revert", "mutant", ["C07"], [(V3, 'if i.startswith("CHG=")]', 'if "CHG" in i]')]),
    ("v3_no_empty_filter", "mutant", ["C07"], [(V3, "    return [[value for value in line if value != \"\"] for line in split_lines]", "    return split_lines")]),
    ("v3_star_first_ignored", "mutant", ["C07"], [(V3, "        elif atom1_is_star:\n            bond_tuples = _parse_bond_line_with_star_atom(line, atom2_index)", "        elif atom1_is_star:\n            bond_tuples = []")]),
    ("v3_sorted_index", "mutant", ["C07"], [(V3, "    return atom_attrs, star_atoms\n\n\ndef _parse_atom_attributes", "    return dict(sorted(atom_attrs.items())), star_atoms\n\n\ndef _parse_atom_attributes")]),
    ("v3_rad_default_equivalent", "canary", [], [(V3, "        RAD: [int(i.split(\"=\")[1]) for i in line if i.startswith(\"RAD=\")],", "        RAD: [int(i.split(\"=\")[1]) for i in line[7:] if i.startswith(\"RAD=\")][:1],")]),
    ("v3_take_first_dup", "canary", [], [(V3, "            atom_attrs[key] = val.pop()", "            atom_attrs[key] = val.pop(0)")]),
    ("v3_split_whitespace", "canary", [], [(V3, "    split_lines = [line.rstrip().split(\" \") for line in lines]", "    split_lines = [line.split() for line in lines]")]),
    ("v2_tuple_len_7", "mutant", ["C08"], [(V2, "    tuple_length = 8", "    tuple_length = 7")]),
    ("v2_first_4_entries", "mutant", ["C08"], [(V2, "    for i in range(number_of_entries):", "    for i in range(min(number_of_entries, 4)):")]),
    ("v2_supersede_chg_only", "mutant", ["C08"], [(V2, "        _clear_atom_attribute(CHG, atom_attrs)\n        _clear_atom_attribute(RAD, atom_attrs)", "        _clear_atom_attribute(CHG, atom_attrs)")]),
    ("v2_rad_lines_do_not_supersede", "mutant", ["C08"], [(V2, "                _parse_atom_value_assignments(line, atom_attrs), RAD, additional_attrs\n            )\n            reset_chg_and_rad = True", "                _parse_atom_value_assignments(line, atom_attrs), RAD, additional_attrs\n            )")]),
    ("d4_revert", "mutant", ["C08"], [(V2, "    _merge_atom_attributes_and_additional_attributes(atom_attrs, additional_attrs)\n\n\ndef _merge_tuples", "    if any(ln.startswith(\"M  ISO\") for ln in lines):\n        _clear_atom_attribute(MASS, atom_attrs)\n    _merge_atom_attributes_and_additional_attributes(atom_attrs, additional_attrs)\n\n\ndef _merge_tuples")]),
    ("v2_value_slice_wide", "canary", [], [(V2, "value = _to_int(line[tuple_start + 4 : tuple_start + 7])", "value = _to_int(line[tuple_start + 3 : tuple_start + 7])")]),
    ("v2_attr_offset_incl_bonds", "canary", [], [(V2, "attribute_block_offset = bond_block_offset + atom_lists_count", "attribute_block_offset = bond_block_offset + bond_count + atom_lists_count")]),
    ("wr_wrap_72", "mutant", ["C09"], [(WR, "        left, line = line[:71], line[71:]", "        left, line = line[:72], line[72:]")]),
    ("wr_wrap_once", "mutant", ["C09"], [(WR, "        left, line = line[:71], line[71:]\n        lines.append(f\"M  V30 {left}-\")", "        left, line = line[:71], line[71:]\n        lines.append(f\"M  V30 {left}-\")\n        lines.append(f\"M  V30 {line}\")\n        break")]),
    ("wr_len_lt_72_equivalent", "canary", [], [(WR, "        if len(line) <= 72:", "        if len(line) < 72:")]),
    ("wr_5_decimals", "mutant", ["C09"], [(WR, "{x:.6f} {y:.6f} {z:.6f}", "{x:.6f} {y:.6f} {z:.5f}")]),
    ("wr_bond_index_0", "mutant", ["C09"], [(WR, "enumerate(graph.edges(data=True), start=1)", "enumerate(graph.edges(data=True), start=0)")]),
    ("wr_charge_guard", "mutant", ["C09"], [(WR, "if (chg := attrs.get(CHG)) and -15 <= chg <= 15", "if (chg := attrs.get(CHG)) and 0 < chg <= 15")]),
    ("wr_strip_chunk", "mutant", ["C09"], [(WR, "        lines.append(f\"M  V30 {left}-\")", "        lines.append(f\"M  V30 {left.rstrip()}-\")")]),
    ("canary_bliss_sh", "canary", [], [(CAN, "m_igraph.canonical_permutation(color=partitions)", 'm_igraph.canonical_permutation(sh="fs", color=partitions)')]),
    ("canary_traversal_priorities", "canary", [], [(SER, "traversal_priorities: tuple[Callable, Callable, Callable] = (lt, gt, eq)", "traversal_priorities: tuple[Callable, Callable, Callable] = (gt, lt, eq)")]),
    ("canary_readers_drop_zeros", "canary", [], [(V3, "        if val:\n            atom_attrs[key] = val.pop()", "        if val and val[-1] != 0:\n            atom_attrs[key] = val.pop()")]),
]


def sh(cmd, **kw):
    return subprocess.run(cmd, shell=True, text=True, capture_output=True, **kw)


def fresh_scratch():
    sh(f"git -C /repo worktree remove --force {SCRATCH}")
    shutil.rmtree(SCRATCH, ignore_errors=True)
    r = sh(f"git -C /repo worktree add --detach {SCRATCH} HEAD")
    if r.returncode:
        sys.exit("cannot create scratch worktree: " + r.stderr)


def apply(edits):
    for f, old, new in edits:
        p = os.path.join(SCRATCH, f)
        s = open(p).read()
        if s.count(old) != 1:
            return f"pattern found {s.count(old)}x in {f}: {old[:50]!r}"
        open(p, "w").write(s.replace(old, new))
    r = sh(f"cd {SCRATCH} && PYTHONPATH={SCRATCH} /venv/bin/python -c 'import tucan.io, tucan.canonicalization, tucan.serialization, tucan.parser.parser'")
    if r.returncode:
        return "does not import: " + r.stderr[-200:]
    return None


def run_tests():
    r = sh(f"cd {SCRATCH} && PYTHONPATH={SCRATCH} /venv/bin/python -m pytest -q -p no:cacheprovider -n 12 -x 2>&1 | tail -1")
    return r.stdout.strip()


def run_check(pid, seed):
    env = dict(os.environ, VERIF_REPO=SCRATCH, VERIF_OUT=OUT, VERIF_SEED=str(seed))
    t = time.time()
    r = subprocess.run(["./check", pid, "--tier", "quick"], cwd=ROOT, env=env, text=True, capture_output=True)
    subs = [ln.strip()[:110] for ln in r.stdout.splitlines() if ln.startswith("  [")]
    return r.returncode, round(time.time() - t), subs


def main():
    ap = argparse.ArgumentParser()
    ap.add_argument("--only")
    ap.add_argument("--checks")
    ap.add_argument("--all-checks", action="store_true")
    ap.add_argument("--tests", action="store_true", help="also run the repo test-suite on each mutant")
    ap.add_argument("--seed", type=int, default=1)
    ap.add_argument("--no-canaries", action="store_true")
    ap.add_argument("--out", default=os.path.join(ROOT, "sensitivity", "results.jsonl"))
    a = ap.parse_args()
    only = set(a.only.split(",")) if a.only else None
    os.makedirs(os.path.dirname(a.out), exist_ok=True)
    allc = [f"C{i:02d}" for i in range(1, 17)]
    for name, kind, expected, edits in MUTANTS:
        if only and name not in only:
            continue
        if a.no_canaries and kind == "canary":
            continue
        fresh_scratch()
        err = apply(edits)
        if err:
            print(f"{name}: NOT APPLIED ({err})")
            continue
        tests = run_tests() if a.tests else "-"
        checks = a.checks.split(",") if a.checks else (allc if a.all_checks or kind == "canary" else expected)
        row = {"mutant": name, "kind": kind, "expected": expected, "tests": tests, "seed": a.seed, "results": {}}
        for pid in checks:
            rc, secs, subs = run_check(pid, a.seed)
            row["results"][pid] = {"rc": rc, "secs": secs, "subs": subs[:3]}
            print(f"{name:38s} {kind:6s} {pid} rc={rc} {secs:4d}s {subs[:1]}", flush=True)
        with open(a.out, "a") as fh:
            fh.write(json.dumps(row) + "\n")
    sh(f"git -C /repo worktree remove --force {SCRATCH}")
    shutil.rmtree(OUT, ignore_errors=True)


if __name__ == "__main__":
    main()
